package main

// `vharness routing`: concretises the request classes of spec/Routing.tla (C15), sends them to a server holding a
// fixed state and records the answers for validation against the table of allowed answers.

import (
	"bufio"
	"encoding/base64"
	"encoding/json"
	"flag"
	"fmt"
	"math/rand"
	"net/url"
	"os"
	"path/filepath"
	"strings"

	"github.com/opencontainers/go-digest"

	"github.com/olareg/olareg/types"
)

func init() { extraCmds["routing"] = cmdRouting }

type rtReq struct {
	Ep   string         `json:"ep"`
	M    string         `json:"m"`
	Repo string         `json:"repo"`
	A    string         `json:"a"`
	Q    map[string]any `json:"q"`
	H    map[string]any `json:"h"`
	B    string         `json:"b"`
}

type rtResp struct {
	Status  int      `json:"status"`
	Panic   bool     `json:"panic"`
	Hung    bool     `json:"hung"`
	ErrDoc  string   `json:"errdoc"`
	Codes   []string `json:"codes"`
	HasBody bool     `json:"hasbody"`
	Changed bool     `json:"changed"`
}

// rtState is the fixed repository state the classes refer to.
type rtState struct {
	srv      *Srv
	ex       *Exec
	cat      *Catalogue
	sandbox  string
	open     string // id of the open session in repository full
	gone     string // id of a cancelled session
	other    string // id of an open session in another repository
	accepted int    // bytes the open session holds
}

var rtRepoReal = map[string]string{
	"full": "c15/full", "empty": "c15/empty", "reserved": "c15/blobs", "long": "c15/" + strings.Repeat("abcdefghij", 30),
	"upper": "C15/Priv", "leaddash": "-c15/x", "dotdot": "c15/a..b", "dblslash": "c15/a___b", "colon": "c15/a:b",
}

func (st *rtState) close() {
	_ = st.srv.Close()
	if st.sandbox != "" {
		_ = os.RemoveAll(st.sandbox)
	}
}

func newRtState(store string, seed int64) (*rtState, error) {
	cat, err := BuildCatalogue(CatOpts{Seed: seed, Contents: []string{"m1", "a1", "a2", "a9", "b3"}, Algs: []string{"sha256", "sha512"},
		Repos: []string{rtRepoReal["full"], rtRepoReal["empty"], "c15/aux"}, NTags: 3})
	if err != nil {
		return nil, err
	}
	cfg := DefaultCfg(store)
	cfg.RefLimit = 600
	st := &rtState{cat: cat}
	root := ""
	build := cfg
	if store != "mem" {
		st.sandbox = mkTemp("vh-rt-")
		root = filepath.Join(st.sandbox, "root")
		_ = os.MkdirAll(root, 0o755)
		if store == "dirro" {
			build.Store = "dir" // populate writable, then reopen read-only
		}
	}
	st.srv = NewSrv(build, root)
	st.ex = NewExec(cat, st.srv, seed)
	mono := func(r, c string) Op {
		return Op{Op: "UpPost", Repo: r, Dig: sym("sha256", c), Chunk: Chunk{C: c, P: "all"}}
	}
	man := func(r, c string, ref Ref) Op {
		return Op{Op: "ManPut", Repo: r, Ref: ref, Body: c, LenKnown: true}
	}
	prelude := []Op{mono("r1", "b1"), mono("r1", "b2"), mono("r1", "b3"), man("r1", "m1", Ref{K: "tag", V: "t1"}),
		man("r1", "a1", Ref{K: "dig", V: sym("sha256", "a1")}), man("r1", "a2", Ref{K: "dig", V: sym("sha256", "a2")}),
		man("r1", "a9", Ref{K: "dig", V: sym("sha256", "a9")})}
	for _, op := range prelude {
		if r := st.ex.Do(op); r.Status/100 != 2 {
			return nil, fmt.Errorf("routing prelude failed: %s -> %d", op.Op, r.Status)
		}
	}
	if root != "" {
		// out of band: a directory whose name is outside the repository grammar but that is a layout holding blob b1
		// (a mount from it must not succeed)
		priv := filepath.Join(root, rtRepoReal["upper"])
		_ = os.MkdirAll(filepath.Join(priv, "blobs", "sha256"), 0o755)
		_ = os.WriteFile(filepath.Join(priv, "oci-layout"), []byte(`{"imageLayoutVersion":"1.0.0"}`), 0o644)
		_ = os.WriteFile(filepath.Join(priv, "index.json"), []byte(`{"schemaVersion":2,"manifests":[]}`), 0o644)
		_ = os.WriteFile(filepath.Join(priv, "blobs", "sha256", strings.TrimPrefix(cat.SymDig[sym("sha256", "b1")], "sha256:")), cat.C["b1"].Bytes, 0o644)
	}
	if store == "dirro" {
		_ = st.srv.Close()
		st.srv = NewSrv(cfg, root)
		st.ex.Srv = st.srv
		return st, nil
	}
	r := st.ex.Do(Op{Op: "UpPost", Repo: "r1"})
	st.open = st.ex.Sess[r.Sess].id
	r = st.ex.Do(Op{Op: "UpPost", Repo: "r1"})
	st.gone = st.ex.Sess[r.Sess].id
	st.ex.Do(Op{Op: "UpDel", Repo: "r1", Sess: r.Sess})
	r = st.ex.Do(Op{Op: "UpPost", Repo: "r3"})
	st.other = st.ex.Sess[r.Sess].id
	return st, nil
}

func pick(rng *rand.Rand, xs ...string) string { return xs[rng.Intn(len(xs))] }

func (st *rtState) digClass(c, kind string, rng *rand.Rand) string {
	present := st.cat.SymDig[sym("sha256", "b1")]
	if kind == "man" {
		present = st.cat.SymDig[sym("sha256", "m1")]
	}
	switch c {
	case "present":
		return present
	case "absent":
		return digest.SHA256.FromString(fmt.Sprintf("absent %d", rng.Int())).String()
	case "absent512":
		return digest.SHA512.FromString(fmt.Sprintf("absent %d", rng.Int())).String()
	case "short":
		return pick(rng, "sha256:abcd", "sha256:", "sha256:"+strings.Repeat("a", 63))
	case "badalg":
		return pick(rng, "md5:d41d8cd98f00b204e9800998ecf8427e", "sha1:da39a3ee5e6b4b0d3255bfef95601890afd80709", "sha257:"+strings.Repeat("a", 64))
	case "upperhex":
		return "sha256:" + strings.Repeat("AB", 32)
	case "nocolon":
		return strings.Repeat("a", 64)
	case "longhex":
		return "sha256:" + strings.Repeat("a", 65+rng.Intn(200))
	case "pathy":
		return pick(rng, "sha256:..%2f..%2f..%2fetc%2fpasswd", "sha256:.."+strings.Repeat("%2f..", 5), "sha256:%00")
	case "uploads":
		return "uploads"
	}
	return c
}

func numClass(c string, rng *rand.Rand) string {
	switch c {
	case "huge":
		return pick(rng, "99999999999999999999", "100000000000000000000000000", "18446744073709551616")
	case "x":
		return pick(rng, "x", "1e3", "0x10", " 1", "1.5", "١")
	}
	return c
}

// concretise builds the real request of a class; variants differ through rng.
func (st *rtState) concretise(q rtReq, rng *rand.Rand) (method, target string, hdr map[string]string, body []byte, lenKnown bool) {
	hdr = map[string]string{}
	lenKnown = true
	method = q.M
	repo := rtRepoReal[q.Repo]
	base := "/v2/" + repo
	qs := url.Values{}
	str := func(m map[string]any, k string) string {
		if v, ok := m[k].(string); ok {
			return v
		}
		return ""
	}
	switch q.Ep {
	case "ping", "unknown":
		return method, q.A, hdr, nil, true
	case "manifests":
		ref := ""
		switch q.A {
		case "tag":
			ref = st.cat.TagReal["t1"]
		case "notag":
			ref = pick(rng, "nosuchtag", "latest", "T")
		case "longtag":
			ref = strings.Repeat("t", 129+rng.Intn(100))
		case "badtag":
			ref = pick(rng, "-bad", ".bad", "a:b:c", "a@b", "%20")
		default:
			ref = st.digClass(q.A, "man", rng)
		}
		target = base + "/manifests/" + ref
		if q.M == "GET" || q.M == "HEAD" {
			switch str(q.H, "accept") {
			case "all":
				hdr["Accept"] = strings.Join([]string{types.MediaTypeOCI1Manifest, types.MediaTypeOCI1ManifestList, types.MediaTypeDocker2Manifest, types.MediaTypeDocker2ManifestList}, ", ")
			case "other":
				hdr["Accept"] = pick(rng, "text/plain", "*/*", "application/json", ";;;,,,")
			case "image":
				hdr["Accept"] = types.MediaTypeDocker2Manifest
			}
			switch str(q.H, "range") {
			case "ok":
				hdr["Range"] = "bytes=0-9"
			case "unsat":
				hdr["Range"] = "bytes=999999-"
			case "garbage":
				hdr["Range"] = pick(rng, "bytes=a-b", "lines=1-2", "bytes=-", "bytes=5-1")
			}
			return
		}
		if q.M == "PUT" {
			manifest := st.cat.C["m1"].Bytes
			switch q.B {
			case "good":
				body = manifest
			case "missingrefs":
				body = st.cat.C["a2"].Bytes // fine in full, references missing in empty
				if q.Repo == "full" {
					body = []byte(strings.Replace(string(manifest), st.cat.SymDig[sym("sha256", "b2")], digest.FromString("gone").String(), 1))
				}
			case "junk":
				body = []byte(pick(rng, "not json", "{\"schemaVersion\":", "\x00\x01\x02", "[]", "null", "\"str\""))
			case "empty":
				body = []byte{}
			case "trunc":
				body = manifest[:len(manifest)/2]
			case "huge":
				body = append(append([]byte{}, manifest...), []byte(strings.Repeat(" ", 5000))...)
			case "emptyobj":
				body = []byte(pick(rng, "{}", "{\"schemaVersion\":2}", "{\"mediaType\":\"application/vnd.oci.image.manifest.v1+json\"}"))
			case "deepjson":
				body = []byte(strings.Repeat("[", 3000) + strings.Repeat("]", 3000))
			}
			real := digest.FromBytes(body).String()
			if q.A == "present" {
				// the reference is the digest of m1: only matches the good body
				target = base + "/manifests/" + st.cat.SymDig[sym("sha256", "m1")]
			}
			switch str(q.Q, "v") {
			case "match":
				qs.Set("digest", real)
			case "absent":
				qs.Set("digest", digest.FromString("other").String())
			case "short":
				qs.Set("digest", "sha256:abc")
			}
			switch str(q.H, "ctype") {
			case "match":
				hdr["Content-Type"] = types.MediaTypeOCI1Manifest
			case "bad":
				hdr["Content-Type"] = pick(rng, "text/plain", "application/json", "application/vnd.oci.image.manifest.v2+json")
			case "otherkind":
				hdr["Content-Type"] = types.MediaTypeOCI1ManifestList
			case "param":
				hdr["Content-Type"] = strings.ToUpper(types.MediaTypeOCI1Manifest) + "; charset=utf-8"
			}
			if lk, ok := q.H["lenKnown"].(bool); ok {
				lenKnown = lk
			}
		}
	case "blobs":
		target = base + "/blobs/" + st.digClass(q.A, "blob", rng)
		switch str(q.H, "range") {
		case "ok":
			hdr["Range"] = "bytes=1-5"
		case "unsat":
			hdr["Range"] = "bytes=999999-"
		case "garbage":
			hdr["Range"] = pick(rng, "bytes=a-b", "lines=1-2", "bytes=-", "bytes=5-1", "bytes")
		case "multi":
			hdr["Range"] = "bytes=0-1,3-4"
		case "huge":
			hdr["Range"] = "bytes=99999999999999999999-"
		}
	case "uploads":
		target = base + "/blobs/uploads/"
		blob := st.cat.C["b3"].Bytes
		switch str(q.Q, "digest") {
		case "match":
			qs.Set("digest", digest.FromBytes(blob).String())
		case "mismatch":
			qs.Set("digest", digest.FromString("mismatch").String())
		case "short":
			qs.Set("digest", "sha256:12")
		case "badalg":
			qs.Set("digest", "md5:d41d8cd98f00b204e9800998ecf8427e")
		case "present":
			qs.Set("digest", st.cat.SymDig[sym("sha256", "b1")])
		}
		switch str(q.Q, "alg") {
		case "sha512":
			qs.Set("digest-algorithm", "sha512")
		case "md5":
			qs.Set("digest-algorithm", "md5")
		case "junk":
			qs.Set("digest-algorithm", pick(rng, "sha-256", "SHA256", "../x", ""))
		}
		switch str(q.Q, "mount") {
		case "present":
			qs.Set("mount", st.cat.SymDig[sym("sha256", "b1")])
		case "absent":
			qs.Set("mount", digest.FromString("absent").String())
		case "short":
			qs.Set("mount", "sha256:zz")
		}
		switch str(q.Q, "from") {
		case "full", "empty", "upper", "dotdot":
			qs.Set("from", rtRepoReal[str(q.Q, "from")])
		case "unknownrepo":
			qs.Set("from", "c15/nosuchrepo")
		}
		if q.B == "blob" {
			body = blob
		}
	case "session":
		id := ""
		switch q.A {
		case "open":
			id = st.open
		case "gone":
			id = st.gone
		case "unknown":
			id = pick(rng, "nosuchsession", "AAAAAAAAAAAAAAAAAAAAAA", strings.Repeat("x", 300))
		case "otherrepo":
			id = st.other
		case "pathy":
			id = pick(rng, "..%2f..%2fx", "%2e%2e", "a%00b")
		}
		target = base + "/blobs/uploads/" + id
		acc := st.accepted
		chunk := []byte{}
		if q.B == "chunk" {
			chunk = st.cat.C["b3"].Bytes[:100]
		}
		body = chunk
		switch str(q.H, "cr") {
		case "ok":
			hdr["Content-Range"] = fmt.Sprintf("%d-%d", acc, acc+len(chunk)-1)
		case "stale":
			hdr["Content-Range"] = fmt.Sprintf("%d-%d", acc-1, acc+len(chunk))
		case "future":
			hdr["Content-Range"] = fmt.Sprintf("%d-%d", acc+7, acc+7+len(chunk))
		case "bad":
			hdr["Content-Range"] = pick(rng, "bytes", "-", "a-b", "0", "--1")
		case "neg":
			hdr["Content-Range"] = "-5-10"
		case "huge":
			hdr["Content-Range"] = "99999999999999999999-100000000000000000000"
		}
		switch str(q.Q, "st") {
		case "ok":
			qs.Set("state", stateTok(acc))
		case "stale":
			qs.Set("state", stateTok(acc-1))
		case "future":
			qs.Set("state", stateTok(acc+1))
		case "b64":
			qs.Set("state", "!!!")
		case "json":
			opts := []string{"{", "[]", "{\"offset\":\"x\"}", "{\"offset\":1.5}", "true", "7", "\"x\""}
			if acc > 0 {
				// the literal null decodes to offset 0: only a wrong token while the session holds data
				opts = append(opts, "null", "null")
			}
			qs.Set("state", base64.RawURLEncoding.EncodeToString([]byte(pick(rng, opts...))))
		case "neg":
			qs.Set("state", stateTok(-1))
		case "huge":
			qs.Set("state", base64.RawURLEncoding.EncodeToString([]byte("{\"offset\":99999999999999999999}")))
		}
		data := append(append([]byte{}, st.cat.C["b3"].Bytes[:st.accepted]...), chunk...)
		switch str(q.Q, "digest") {
		case "match":
			qs.Set("digest", digest.FromBytes(data).String())
		case "mismatch":
			qs.Set("digest", digest.FromString("mismatch").String())
		case "short":
			qs.Set("digest", "sha256:1")
		case "badalg":
			qs.Set("digest", "crc32:abcdef01")
		}
	case "referrers":
		target = base + "/referrers/" + st.digClass(q.A, "man", rng)
		switch str(q.Q, "at") {
		case "match":
			qs.Set("artifactType", atLong["at1"])
		case "nomatch":
			qs.Set("artifactType", "application/nothing")
		}
		if p := str(q.Q, "page"); p != "none" {
			qs.Set("page", numClass(p, rng))
		}
		switch str(q.Q, "cache") {
		case "match":
			qs.Set("cache", st.respDigest())
		case "other":
			qs.Set("cache", digest.FromString("other").String())
		case "bad":
			qs.Set("cache", "sha256:nothex")
		}
	case "tags":
		target = base + "/tags/list"
		if n := str(q.Q, "n"); n != "none" {
			qs.Set("n", numClass(n, rng))
		}
		switch str(q.Q, "last") {
		case "tag":
			qs.Set("last", st.cat.TagReal["t1"])
		case "between":
			qs.Set("last", st.cat.TagReal["t1"]+"~")
		case "odd":
			qs.Set("last", pick(rng, "\x00", "../..", strings.Repeat("z", 5000), "%"))
		}
	}
	if len(qs) > 0 {
		target += "?" + qs.Encode()
	}
	return
}

// respDigest finds the digest of the current referrers response of m1 (from the Link header of the first page).
func (st *rtState) respDigest() string {
	hr := st.srv.Do("GET", "/v2/"+rtRepoReal["full"]+"/referrers/"+st.cat.SymDig[sym("sha256", "m1")], nil, nil, true, "")
	l := hr.Header.Get("Link")
	if i := strings.Index(l, "cache="); i >= 0 {
		v := l[i+6:]
		if j := strings.IndexAny(v, "&>"); j >= 0 {
			v = v[:j]
		}
		if u, err := url.QueryUnescape(v); err == nil {
			return u
		}
	}
	return digest.FromString("noresponse").String()
}

// sessionGone tells whether the open session of the fixed state still exists (non perturbing hook).
func (st *rtState) sessionGone() bool {
	ids, err := st.srv.S.VerifSessions(rtRepoReal["full"])
	if err != nil {
		return true
	}
	for _, id := range ids {
		if id == st.open {
			return false
		}
	}
	return true
}

func (st *rtState) fingerprint() string {
	repos, _ := st.srv.S.VerifRepos()
	n := 0
	for _, r := range repos {
		if (!strings.HasPrefix(r, "c15/") && r != rtRepoReal["upper"]) || strings.Contains(r, "..") {
			n++
		}
	}
	s := fmt.Sprintf("%d", n)
	if st.srv.Root != "" {
		ents, _ := os.ReadDir(st.srv.Root)
		for _, e := range ents {
			s += " " + e.Name()
		}
		sub, _ := os.ReadDir(filepath.Join(st.srv.Root, "c15"))
		for _, e := range sub {
			s += " c15/" + e.Name()
		}
	}
	return s
}

func cmdRouting(args []string) {
	fs := flag.NewFlagSet("routing", flag.ExitOnError)
	classes := fs.String("classes", "", "ndjson of request classes (from MCRouting)")
	out := fs.String("o", "trace.ndjson", "trace output")
	stores := fs.String("stores", "mem,dir", "store kinds")
	seed := fs.Int64("seed", 1, "seed")
	variants := fs.Int("variants", 1, "concretisations per class")
	sample := fs.Int("sample", 1, "use every n-th class (offset by the seed)")
	_ = fs.Parse(args)
	in, err := os.Open(*classes)
	if err != nil {
		fatal(err)
	}
	defer in.Close()
	reqs := []rtReq{}
	sc := bufio.NewScanner(in)
	sc.Buffer(make([]byte, 1<<20), 1<<26)
	k := 0
	for sc.Scan() {
		if strings.TrimSpace(sc.Text()) == "" {
			continue
		}
		k++
		if (int64(k)+*seed)%int64(*sample) != 0 {
			continue
		}
		var q rtReq
		if err := json.Unmarshal([]byte(sc.Text()), &q); err != nil {
			fatal(err)
		}
		reqs = append(reqs, q)
	}
	of, err := os.Create(*out)
	if err != nil {
		fatal(err)
	}
	w := bufio.NewWriterSize(of, 1<<20)
	defer func() { w.Flush(); of.Close() }()
	enc := json.NewEncoder(w)
	events := 0
	for _, store := range splitList(*stores) {
		rng := rand.New(rand.NewSource(*seed))
		st, err := newRtState(store, *seed)
		if err != nil {
			fatal(err)
		}
		for _, q := range reqs {
			for v := 0; v < *variants; v++ {
				m, target, hdr, body, lk := st.concretise(q, rng)
				before := ""
				watch := q.Ep != "ping" && q.Ep != "unknown" && !map[string]bool{"full": true, "empty": true, "reserved": true, "long": true}[q.Repo]
				if watch {
					before = st.fingerprint()
				}
				hr := st.srv.Do(m, target, hdr, body, lk, "")
				pr := st.ex.project(hr)
				resp := rtResp{Status: hr.Status, Panic: hr.Panic != "", Hung: hr.Hung, ErrDoc: pr.ErrDoc, Codes: pr.Codes, HasBody: len(hr.Body) > 0}
				if watch {
					resp.Changed = st.fingerprint() != before
				}
				events++
				_ = enc.Encode(map[string]any{"k": "req", "i": events, "store": store, "req": q, "resp": resp, "variant": m + " " + target})
				// a state changing answer: rebuild the fixed state
				if q.Ep == "session" && q.A == "open" && q.Repo == "full" && m == "PATCH" && hr.Status == 202 {
					st.accepted += len(body)
					continue
				}
				endsSession := q.Ep == "session" && q.A == "open" && q.Repo == "full" && (m == "PUT" || m == "DELETE") && st.sessionGone()
				if (m != "GET" && m != "HEAD" && hr.Status/100 == 2) || hr.Panic != "" || hr.Hung || endsSession {
					st.close()
					if st, err = newRtState(store, *seed); err != nil {
						fatal(err)
					}
				}
			}
		}
		st.close()
	}
	fmt.Fprintf(os.Stderr, "vharness: %d classes, %d events\n", len(reqs), events)
}
