package main

// Catalogue: the fixed universe of contents (blobs, manifests) a trace talks about.
// Model content ids (b1, m1, ...) are mapped to real bytes; real digests are mapped back
// to model digest symbols "<alg>:<cid>". The same catalogue, exported as JSON, is the
// constant Cat of the TLA+ specification (spec/Registry.tla).

import (
	"encoding/json"
	"fmt"
	"math/rand"
	"sort"
	"strings"

	_ "crypto/sha256"
	_ "crypto/sha512"

	"github.com/opencontainers/go-digest"

	"github.com/olareg/olareg/types"
)

var mtLong = map[string]string{
	"oci.image":    types.MediaTypeOCI1Manifest,
	"docker.image": types.MediaTypeDocker2Manifest,
	"oci.index":    types.MediaTypeOCI1ManifestList,
	"docker.index": types.MediaTypeDocker2ManifestList,
}

var mtShort = func() map[string]string {
	m := map[string]string{}
	for k, v := range mtLong {
		m[v] = k
	}
	return m
}()

var atLong = map[string]string{
	"at1": "application/vnd.example.sbom.v1",
	"at2": "application/vnd.example.config.v1+json", // only ever reached through the config media type fallback
	"at3": "application/vnd.example.sig.v1",
}

var atShort = func() map[string]string {
	m := map[string]string{}
	for k, v := range atLong {
		m[v] = k
	}
	return m
}()

// ContentDef is the structural definition of one catalogue entry.
type ContentDef struct {
	ID       string
	Kind     string // blob | image | index
	MT       string // short media type (manifests)
	Cfg      string // content id of config
	CfgMT    string // media type of the config descriptor
	Layers   []string
	Children []string
	Subject  string // content id of the subject ("" none)
	SubjAlg  string // algorithm the subject is referenced with
	AT       string // declared artifactType (short) or ""
	Annot    bool   // carries annotations
	LieMT    bool   // index: the child descriptors declare the wrong media type (image as index and vice versa)
	Big      int    // > 0: an additional annotation of that many bytes (a descriptor that does not fit on a small referrers page)
	NoMT     bool   // omit the mediaType field in the body
	Pad      int    // trailing whitespace appended to the body
	Len      int    // length for plain blobs
	RefAlg   string // algorithm used for config/layer/child references (default sha256)
	Evil     int    // > 0: the single child / layer digest is a path traversal out of a repository of that depth
}

// the standard universe; a profile selects a dependency closed subset
var stdDefs = []ContentDef{
	{ID: "b0", Kind: "blob", Len: 0},
	{ID: "b1", Kind: "blob", Len: 37},
	{ID: "b2", Kind: "blob", Len: 1024},
	{ID: "b3", Kind: "blob", Len: 4099},
	{ID: "b4", Kind: "blob", Len: 70001},
	{ID: "nx", Kind: "blob", Len: 11}, // never pushed: the "missing" content
	{ID: "m1", Kind: "image", MT: "oci.image", Cfg: "b1", CfgMT: types.MediaTypeOCI1ImageConfig, Layers: []string{"b2"}},
	{ID: "m2", Kind: "image", MT: "oci.image", Cfg: "b1", CfgMT: types.MediaTypeOCI1ImageConfig, Layers: []string{"b2", "b3"}},
	{ID: "m3", Kind: "image", MT: "docker.image", Cfg: "b1", CfgMT: types.MediaTypeDocker2ImageConfig, Layers: []string{"b3"}},
	{ID: "m4", Kind: "image", MT: "oci.image", Cfg: "b0", CfgMT: types.MediaTypeOCI1ImageConfig, Layers: []string{}, NoMT: true},
	{ID: "m5", Kind: "image", MT: "oci.image", Cfg: "b1", CfgMT: types.MediaTypeOCI1ImageConfig, Layers: []string{"b2"}, RefAlg: "sha512"},
	{ID: "ml", Kind: "image", MT: "oci.image", Cfg: "b1", CfgMT: types.MediaTypeOCI1ImageConfig, Layers: []string{"m1"}}, // a layer that is a manifest digest
	{ID: "mg", Kind: "image", MT: "oci.image", Cfg: "b1", CfgMT: types.MediaTypeOCI1ImageConfig, Layers: []string{"b2"}, Pad: 4096},
	// an image manifest (config, layers) whose mediaType field claims to be an index: never a well formed manifest
	{ID: "mi", Kind: "image", MT: "oci.index", Cfg: "b1", CfgMT: types.MediaTypeOCI1ImageConfig, Layers: []string{"b2"}},
	{ID: "x1", Kind: "index", MT: "oci.index", Children: []string{"m1", "m2"}},
	{ID: "x2", Kind: "index", MT: "oci.index", Children: []string{"x1"}},
	{ID: "x3", Kind: "index", MT: "docker.index", Children: []string{"m3"}},
	{ID: "x4", Kind: "index", MT: "oci.index", Children: []string{"m1"}},
	// manifests whose reference is a digest with dot segments pointing at the same content in a sentinel directory next
	// to the root (sandbox/victim/blobs/sha256/<hex of b2>): the reference never exists in any repository
	{ID: "xe", Kind: "index", MT: "oci.index", Children: []string{"m1"}, Evil: 1},
	{ID: "me", Kind: "image", MT: "oci.image", Cfg: "b1", CfgMT: types.MediaTypeOCI1ImageConfig, Layers: []string{"b2"}, Evil: 1},
	{ID: "a1", Kind: "image", MT: "oci.image", Cfg: "b1", CfgMT: types.MediaTypeOCI1Empty, Layers: []string{"b2"}, Subject: "m1", AT: "at1", Annot: true},
	{ID: "a2", Kind: "image", MT: "oci.image", Cfg: "b1", CfgMT: atLong["at2"], Layers: []string{}, Subject: "m1"},
	{ID: "a3", Kind: "image", MT: "oci.image", Cfg: "b1", CfgMT: types.MediaTypeOCI1Empty, Layers: []string{}, Subject: "a1", AT: "at3"},
	{ID: "a4", Kind: "image", MT: "oci.image", Cfg: "b1", CfgMT: types.MediaTypeOCI1Empty, Layers: []string{}, Subject: "nx", AT: "at1"},
	{ID: "a5", Kind: "index", MT: "oci.index", Children: []string{}, Subject: "m1", AT: "at3", Annot: true},
	{ID: "a6", Kind: "image", MT: "oci.image", Cfg: "b1", CfgMT: types.MediaTypeOCI1Empty, Layers: []string{}, Subject: "x1", AT: "at1"},
	// an index that is a referrer of m1 and lists a4, itself a referrer of a subject that never exists
	{ID: "a12", Kind: "index", MT: "oci.index", Children: []string{"a4"}, Subject: "m1", AT: "at3"},
	{ID: "a7", Kind: "image", MT: "oci.image", Cfg: "b1", CfgMT: types.MediaTypeOCI1Empty, Layers: []string{"b3"}, Subject: "m2", AT: "at1"},
	{ID: "a9", Kind: "image", MT: "oci.image", Cfg: "b1", CfgMT: types.MediaTypeOCI1Empty, Layers: []string{"b2"}, Subject: "m1", AT: "at1"},
	{ID: "a10", Kind: "image", MT: "oci.image", Cfg: "b1", CfgMT: types.MediaTypeOCI1Empty, Layers: []string{}, Subject: "m1", AT: "at1", Big: 700},
	{ID: "a11", Kind: "image", MT: "oci.image", Cfg: "b1", CfgMT: types.MediaTypeOCI1Empty, Layers: []string{"b2"}, Subject: "m1", AT: "at2", Big: 640},
	{ID: "a8", Kind: "image", MT: "oci.image", Cfg: "b1", CfgMT: types.MediaTypeOCI1Empty, Layers: []string{}, Subject: "m1", SubjAlg: "sha512", AT: "at1"},
}

// Content is one realised catalogue entry.
type Content struct {
	Def   ContentDef
	Bytes []byte
}

// Catalogue holds the realised universe.
type Catalogue struct {
	Seed     int64
	Order    []string // content ids in dependency order
	C        map[string]*Content
	Algs     []string          // algorithms probed for every content
	DigSym   map[string]string // real digest string -> symbol
	SymDig   map[string]string // symbol -> real digest string
	Tags     []string          // model tags t1..tn
	TagReal  map[string]string // model tag -> real tag
	TagModel map[string]string
	Repos    []string          // model repo ids r1..rn
	RepoReal map[string]string // model repo -> real name
	ATs      []string
}

func algOf(a string) digest.Algorithm {
	switch a {
	case "sha256":
		return digest.SHA256
	case "sha384":
		return digest.SHA384
	case "sha512":
		return digest.SHA512
	}
	panic("unknown algorithm " + a)
}

func sym(alg, cid string) string { return alg + ":" + cid }

func splitSym(s string) (string, string) {
	a, c, _ := strings.Cut(s, ":")
	return a, c
}

// CatOpts selects the universe.
type CatOpts struct {
	Seed     int64
	Contents []string // content ids to include (closed under dependencies automatically)
	Algs     []string // algorithms under which every content gets a digest symbol
	NTags    int
	Repos    []string // real repository names, in model order r1..rn
	TagStyle int      // 0: short names, 1: grammar corner cases
}

func defByID(id string) *ContentDef {
	for i := range stdDefs {
		if stdDefs[i].ID == id {
			return &stdDefs[i]
		}
	}
	return nil
}

// BuildCatalogue realises the selected contents with seeded random bytes.
func BuildCatalogue(o CatOpts) (*Catalogue, error) {
	c := &Catalogue{
		Seed: o.Seed, C: map[string]*Content{}, DigSym: map[string]string{}, SymDig: map[string]string{},
		TagReal: map[string]string{}, TagModel: map[string]string{}, RepoReal: map[string]string{},
	}
	c.Algs = o.Algs
	if len(c.Algs) == 0 {
		c.Algs = []string{"sha256"}
	}
	// dependency closure
	want := map[string]bool{}
	var add func(id string) error
	add = func(id string) error {
		if want[id] {
			return nil
		}
		d := defByID(id)
		if d == nil {
			return fmt.Errorf("unknown content id %s", id)
		}
		want[id] = true
		deps := append([]string{}, d.Layers...)
		deps = append(deps, d.Children...)
		if d.Cfg != "" {
			deps = append(deps, d.Cfg)
		}
		if d.Subject != "" {
			deps = append(deps, d.Subject)
		}
		for _, x := range deps {
			if err := add(x); err != nil {
				return err
			}
		}
		return nil
	}
	for _, id := range o.Contents {
		if err := add(id); err != nil {
			return nil, err
		}
	}
	rng := rand.New(rand.NewSource(o.Seed))
	// realise in definition order (stdDefs is dependency ordered except subjects, handled below)
	var build func(id string) error
	build = func(id string) error {
		if _, ok := c.C[id]; ok {
			return nil
		}
		d := defByID(id)
		deps := append([]string{}, d.Layers...)
		deps = append(deps, d.Children...)
		if d.Cfg != "" {
			deps = append(deps, d.Cfg)
		}
		if d.Subject != "" {
			deps = append(deps, d.Subject)
		}
		for _, x := range deps {
			if err := build(x); err != nil {
				return err
			}
		}
		b, err := c.realise(d, rng)
		if err != nil {
			return err
		}
		c.C[id] = &Content{Def: *d, Bytes: b}
		c.Order = append(c.Order, id)
		return nil
	}
	for i := range stdDefs {
		if want[stdDefs[i].ID] {
			if err := build(stdDefs[i].ID); err != nil {
				return nil, err
			}
		}
	}
	for _, id := range c.Order {
		for _, a := range []string{"sha256", "sha384", "sha512"} {
			real := algOf(a).FromBytes(c.C[id].Bytes).String()
			c.DigSym[real] = sym(a, id)
			c.SymDig[sym(a, id)] = real
		}
	}
	// tags: real strings whose lexical order is the model order
	nt := o.NTags
	if nt == 0 {
		nt = 3
	}
	for i := 1; i <= nt; i++ {
		mt := fmt.Sprintf("t%d", i)
		var real string
		lead := string(rune('a' + i))
		switch o.TagStyle {
		case 0:
			real = fmt.Sprintf("%s%d", lead, rng.Intn(90)+10)
		default:
			// corner cases of the grammar: 1 char, 128 chars, dots/dashes/underscores, upper case sorts before lower case
			switch (i + int(o.Seed)) % 4 {
			case 0:
				real = lead
			case 1:
				real = lead + strings.Repeat("x", 127)
			case 2:
				real = lead + "._-" + fmt.Sprintf("%d", rng.Intn(1000)) + ".Z"
			default:
				real = lead + "-sha256-" + strings.Repeat("0", 20)
			}
		}
		c.Tags = append(c.Tags, mt)
		c.TagReal[mt] = real
		c.TagModel[real] = mt
	}
	repos := o.Repos
	if len(repos) == 0 {
		repos = []string{"proj/app", "proj"}
	}
	for i, r := range repos {
		m := fmt.Sprintf("r%d", i+1)
		c.Repos = append(c.Repos, m)
		c.RepoReal[m] = r
	}
	c.ATs = []string{"at1", "at2", "at3"}
	return c, nil
}

// evilDigest rewrites sha256:<hex> into sha256:../(depth+3 times)victim/blobs/sha256/<hex>: from
// root/<repo of that depth>/blobs/sha256/ this names the blob of the sentinel layout next to the root.
func evilDigest(d digest.Digest, depth int) digest.Digest {
	return digest.Digest("sha256:" + strings.Repeat("../", depth+3) + "victim/blobs/sha256/" + d.Encoded())
}

func (c *Catalogue) desc(id, alg, mediaType string) types.Descriptor {
	if alg == "" {
		alg = "sha256"
	}
	b := c.C[id].Bytes
	return types.Descriptor{MediaType: mediaType, Digest: algOf(alg).FromBytes(b), Size: int64(len(b))}
}

func (c *Catalogue) realise(d *ContentDef, rng *rand.Rand) ([]byte, error) {
	switch d.Kind {
	case "blob":
		b := make([]byte, d.Len)
		_, _ = rng.Read(b)
		return b, nil
	case "image":
		m := types.Manifest{SchemaVersion: 2}
		if !d.NoMT {
			m.MediaType = mtLong[d.MT]
		}
		m.Config = c.desc(d.Cfg, d.RefAlg, d.CfgMT)
		m.Layers = []types.Descriptor{}
		for _, l := range d.Layers {
			lmt := types.MediaTypeOCI1LayerGzip
			if c.C[l].Def.Kind != "blob" {
				lmt = mtLong[c.C[l].Def.MT]
			}
			ld := c.desc(l, d.RefAlg, lmt)
			if d.Evil > 0 {
				ld.Digest = evilDigest(ld.Digest, d.Evil)
			}
			m.Layers = append(m.Layers, ld)
		}
		if d.AT != "" {
			m.ArtifactType = atLong[d.AT]
		}
		if d.Subject != "" {
			sd := c.C[d.Subject].Def
			smt := types.MediaTypeOCI1Manifest
			if sd.Kind != "blob" {
				smt = mtLong[sd.MT]
			}
			s := c.desc(d.Subject, d.SubjAlg, smt)
			m.Subject = &s
		}
		if d.Annot {
			m.Annotations = map[string]string{"org.example.k": "v-" + d.ID, "org.example.seed": fmt.Sprintf("%d", rng.Intn(1000))}
		} else {
			// make every manifest unique per seed
			m.Annotations = map[string]string{"org.example.id": fmt.Sprintf("%s-%d", d.ID, rng.Intn(1<<30))}
		}
		if d.Big > 0 {
			m.Annotations["org.example.big"] = strings.Repeat("x", d.Big)
		}
		b, err := json.Marshal(m)
		if err != nil {
			return nil, err
		}
		if d.Pad > 0 {
			b = append(b, []byte(strings.Repeat(" ", d.Pad))...)
		}
		return b, nil
	case "index":
		m := types.Index{SchemaVersion: 2, MediaType: mtLong[d.MT]}
		m.Manifests = []types.Descriptor{}
		for _, ch := range d.Children {
			cd := c.desc(ch, d.RefAlg, mtLong[c.C[ch].Def.MT])
			if d.LieMT {
				if c.C[ch].Def.Kind == "image" {
					cd.MediaType = types.MediaTypeOCI1ManifestList
				} else {
					cd.MediaType = types.MediaTypeOCI1Manifest
				}
			}
			if d.Evil > 0 {
				cd.Digest = evilDigest(cd.Digest, d.Evil)
			}
			m.Manifests = append(m.Manifests, cd)
		}
		if d.AT != "" {
			m.ArtifactType = atLong[d.AT]
		}
		if d.Subject != "" {
			sd := c.C[d.Subject].Def
			smt := types.MediaTypeOCI1Manifest
			if sd.Kind != "blob" {
				smt = mtLong[sd.MT]
			}
			s := c.desc(d.Subject, d.SubjAlg, smt)
			m.Subject = &s
		}
		if d.Annot {
			m.Annotations = map[string]string{"org.example.k": "v-" + d.ID, "org.example.seed": fmt.Sprintf("%d", rng.Intn(1000))}
		} else {
			m.Annotations = map[string]string{"org.example.id": fmt.Sprintf("%s-%d", d.ID, rng.Intn(1<<30))}
		}
		return json.Marshal(m)
	}
	return nil, fmt.Errorf("unknown kind %s", d.Kind)
}

// EffAT is the artifactType a referrers response must report for the manifest.
func (c *Catalogue) EffAT(id string) string {
	d := c.C[id].Def
	if d.AT != "" {
		return d.AT
	}
	if d.Kind == "image" {
		if s, ok := atShort[d.CfgMT]; ok {
			return s
		}
		return "cfg:" + d.CfgMT
	}
	return ""
}

// Annotations returns the annotations of the manifest body.
func (c *Catalogue) Annotations(id string) map[string]string {
	var p struct {
		Annotations map[string]string `json:"annotations"`
	}
	_ = json.Unmarshal(c.C[id].Bytes, &p)
	return p.Annotations
}

// Sym maps a real digest string to its model symbol ("?" when unknown).
func (c *Catalogue) Sym(real string) string {
	if s, ok := c.DigSym[real]; ok {
		return s
	}
	if real == "" {
		return ""
	}
	return "?"
}

// Real maps a model digest symbol to the real digest string.
func (c *Catalogue) Real(s string) string {
	if r, ok := c.SymDig[s]; ok {
		return r
	}
	return s // concretiser passes malformed digests through verbatim
}

// Identify maps bytes to a content id by comparison ("" when unknown).
func (c *Catalogue) Identify(b []byte) string {
	s := c.Sym(digest.SHA256.FromBytes(b).String())
	if s == "?" || s == "" {
		return ""
	}
	_, cid := splitSym(s)
	return cid
}

// ProbeDigs is the list of digest symbols observed after every step.
func (c *Catalogue) ProbeDigs() []string {
	out := []string{}
	for _, id := range c.Order {
		for _, a := range c.Algs {
			out = append(out, sym(a, id))
		}
	}
	sort.Strings(out)
	return out
}

// Header renders the catalogue for the trace header / the TLA+ constant.
func (c *Catalogue) Header() map[string]any {
	blobs := map[string]any{}
	mans := map[string]any{}
	for _, id := range c.Order {
		ct := c.C[id]
		d := ct.Def
		if d.Kind == "blob" {
			blobs[id] = map[string]any{"len": len(ct.Bytes)}
			continue
		}
		ra := d.RefAlg
		if ra == "" {
			ra = "sha256"
		}
		layers := []string{}
		for _, l := range d.Layers {
			if d.Evil > 0 {
				layers = append(layers, "evil:"+l)
				continue
			}
			layers = append(layers, sym(ra, l))
		}
		children := []string{}
		for _, l := range d.Children {
			if d.Evil > 0 {
				children = append(children, "evil:"+l)
				continue
			}
			children = append(children, sym(ra, l))
		}
		cfg := ""
		if d.Cfg != "" {
			cfg = sym(ra, d.Cfg)
		}
		subj := ""
		if d.Subject != "" {
			sa := d.SubjAlg
			if sa == "" {
				sa = "sha256"
			}
			subj = sym(sa, d.Subject)
		}
		mans[id] = map[string]any{
			"kind": d.Kind, "mt": d.MT, "cfg": cfg, "layers": layers, "children": children,
			"subject": subj, "at": c.EffAT(id), "len": len(ct.Bytes), "jsonlen": len(ct.Bytes) - d.Pad,
			"nomt": d.NoMT,
		}
	}
	digs := map[string]any{}
	for _, s := range c.ProbeDigs() {
		a, cid := splitSym(s)
		// page1: size of a referrers page that holds only the descriptor of this manifest (0: not a referrer)
		page1 := 0
		if ct, ok := c.C[cid]; ok && ct.Def.Kind != "blob" && ct.Def.Subject != "" {
			at := c.EffAT(cid)
			if l, ok := atLong[at]; ok {
				at = l
			} else if strings.HasPrefix(at, "cfg:") {
				at = at[4:]
			}
			d := types.Descriptor{MediaType: mtLong[ct.Def.MT], Digest: digest.Digest(c.SymDig[s]), Size: int64(len(ct.Bytes)), ArtifactType: at, Annotations: c.Annotations(cid)}
			if b, err := json.Marshal(types.Index{SchemaVersion: 2, MediaType: types.MediaTypeOCI1ManifestList, Manifests: []types.Descriptor{d}}); err == nil {
				page1 = len(b)
			}
		}
		digs[s] = map[string]any{"a": a, "c": cid, "page1": page1}
	}
	return map[string]any{
		"blobs": blobs, "mans": mans, "digs": digs, "tags": c.Tags, "repos": c.Repos, "ats": c.ATs, "order": c.Order,
	}
}
