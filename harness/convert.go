package main

// `vharness convert`: C17. Writes the layouts of spec/ConvertAbs.tla (referrers kept with the fallback tag scheme)
// to disk, opens them with a writable directory store, a memory store over the directory and a read-only directory
// store, and records what each presents (first open and re-open).

import (
	"bufio"
	"encoding/json"
	"flag"
	"fmt"
	"os"
	"path/filepath"
	"strings"
	"time"

	"github.com/opencontainers/go-digest"

	"github.com/olareg/olareg/types"
)

func init() { extraCmds["convert"] = cmdConvert }

type cvEntry struct {
	A string `json:"a"`
	D string `json:"d"`
}

type cvFb struct {
	Tag  bool      `json:"tag"`
	List []cvEntry `json:"list"`
}

type cvLayout struct {
	Present []string        `json:"present"`
	Fb      map[string]cvFb `json:"fb"`
	Resp    []string        `json:"resp"`
	Conv    bool            `json:"conv"`
	S512    bool            `json:"s512"`
}

const cvRepo = "conv/repo"

// writeLayout materialises a layout below root/conv/repo.
// cvBakTag is an ordinary tag that starts with the fallback tag of m2.
func cvBakTag(cat *Catalogue) string {
	return "sha256-" + digest.SHA256.FromBytes(cat.C["m2"].Bytes).Encoded() + ".bak"
}

func writeLayout(root string, cat *Catalogue, L cvLayout, untagged bool) error {
	dir := filepath.Join(root, cvRepo)
	if err := os.MkdirAll(filepath.Join(dir, "blobs", "sha256"), 0o755); err != nil {
		return err
	}
	put := func(b []byte) types.Descriptor {
		d := digest.SHA256.FromBytes(b)
		_ = os.WriteFile(filepath.Join(dir, "blobs", "sha256", d.Encoded()), b, 0o644)
		return types.Descriptor{Digest: d, Size: int64(len(b))}
	}
	for _, id := range []string{"b1", "b2", "b3", "m1", "m2"} {
		put(cat.C[id].Bytes)
	}
	present := map[string]bool{}
	for _, a := range L.Present {
		present[a] = true
		put(cat.C[a].Bytes)
	}
	if L.S512 {
		put(cat.C["a8"].Bytes)
	}
	// descriptor of an artifact as a fallback index would list it, with an optional defect
	artDesc := func(a, defect string) types.Descriptor {
		b := cat.C[a].Bytes
		d := types.Descriptor{MediaType: mtLong[cat.C[a].Def.MT], Digest: digest.SHA256.FromBytes(b), Size: int64(len(b))}
		at := cat.EffAT(a)
		if l, ok := atLong[at]; ok {
			at = l
		} else if strings.HasPrefix(at, "cfg:") {
			at = at[4:]
		}
		d.ArtifactType = at
		d.Annotations = cat.Annotations(a)
		switch defect {
		case "size":
			d.Size += 7
		case "at":
			d.ArtifactType = "application/vnd.example.wrong"
		case "noat":
			d.ArtifactType = ""
		case "annot":
			d.Annotations = map[string]string{"org.example.k": "stale value"}
		}
		return d
	}
	idx := types.Index{SchemaVersion: 2, MediaType: types.MediaTypeOCI1ManifestList, Manifests: []types.Descriptor{}}
	img := func(id, tag string) {
		b := cat.C[id].Bytes
		d := types.Descriptor{MediaType: mtLong[cat.C[id].Def.MT], Digest: digest.SHA256.FromBytes(b), Size: int64(len(b))}
		if !untagged {
			d.Annotations = map[string]string{types.AnnotRefName: tag}
		}
		idx.Manifests = append(idx.Manifests, d)
	}
	img("m1", cat.TagReal["t1"])
	img("m2", cat.TagReal["t2"])
	subjDig := map[string]digest.Digest{"m1": digest.SHA256.FromBytes(cat.C["m1"].Bytes), "m2": digest.SHA256.FromBytes(cat.C["m2"].Bytes),
		"nx": digest.SHA256.FromBytes(cat.C["nx"].Bytes)}
	addIndex := func(list []types.Descriptor, annot map[string]string) {
		fi := types.Index{SchemaVersion: 2, MediaType: types.MediaTypeOCI1ManifestList, Manifests: list}
		b, _ := json.Marshal(fi)
		d := put(b)
		d.MediaType = types.MediaTypeOCI1ManifestList
		d.Annotations = annot
		idx.Manifests = append(idx.Manifests, d)
	}
	for _, s := range []string{"m1", "m2", "nx"} {
		fb := L.Fb[s]
		if !fb.Tag {
			continue
		}
		list := []types.Descriptor{}
		for _, e := range fb.List {
			list = append(list, artDesc(e.A, e.D))
		}
		addIndex(list, map[string]string{types.AnnotRefName: "sha256-" + subjDig[s].Encoded()})
	}
	if L.S512 {
		d512 := digest.SHA512.FromBytes(cat.C["m1"].Bytes)
		addIndex([]types.Descriptor{artDesc("a8", "ok")}, map[string]string{types.AnnotRefName: "sha512-" + d512.Encoded()})
	}
	for _, s := range L.Resp {
		// an already converted, accurate response of subject m1 listing a1
		addIndex([]types.Descriptor{artDesc("a1", "ok")}, map[string]string{types.AnnotReferrerSubject: subjDig[s].String()})
	}
	if !untagged {
		// an ordinary tag whose name merely starts like a fallback tag (a saved copy of one), pointing to an index: it is kept
		addIndex([]types.Descriptor{{MediaType: mtLong[cat.C["m1"].Def.MT], Digest: subjDig["m1"], Size: int64(len(cat.C["m1"].Bytes))}},
			map[string]string{types.AnnotRefName: cvBakTag(cat)})
	}
	if L.Conv {
		idx.Annotations = map[string]string{types.AnnotReferrerConvert: "true"}
	}
	ib, _ := json.Marshal(idx)
	_ = os.WriteFile(filepath.Join(dir, "oci-layout"), []byte(`{"imageLayoutVersion":"1.0.0"}`), 0o644)
	return os.WriteFile(filepath.Join(dir, "index.json"), ib, 0o644)
}

func cmdConvert(args []string) {
	fs := flag.NewFlagSet("convert", flag.ExitOnError)
	layouts := fs.String("layouts", "", "ndjson of layouts (from MCConvert)")
	out := fs.String("o", "trace.ndjson", "trace output")
	seed := fs.Int64("seed", 1, "seed")
	mod := fs.Int("mod", 1, "use the layouts whose number is rem modulo mod")
	rem := fs.Int("rem", 0, "see mod")
	pick := fs.Int("pick", 1, "of those, use a seeded pseudo random 1/pick")
	stores := fs.String("stores", "dir,memdir,dirro", "store kinds")
	crash := fs.Bool("crash", false, "also recover from every crash image of the conversion (directory store; needs the vfs build)")
	_ = fs.Parse(args)
	if *crash && !convCrashAvailable {
		fatal(fmt.Errorf("-crash needs the harness built with the vfs overlay"))
	}
	in, err := os.Open(*layouts)
	if err != nil {
		fatal(err)
	}
	defer in.Close()
	of, err := os.Create(*out)
	if err != nil {
		fatal(err)
	}
	w := bufio.NewWriterSize(of, 1<<20)
	defer func() { w.Flush(); of.Close() }()
	enc := json.NewEncoder(w)
	cat, err := BuildCatalogue(CatOpts{Seed: *seed, Contents: []string{"m1", "m2", "a1", "a2", "a7", "a4", "a8", "b3"}, Algs: []string{"sha256", "sha512"},
		Repos: []string{cvRepo}, NTags: 3})
	if err != nil {
		fatal(err)
	}
	watchdog = 4 * time.Second
	sc := bufio.NewScanner(in)
	sc.Buffer(make([]byte, 1<<20), 1<<26)
	k, events, nlay, images := 0, 0, 0, 0
	nhung := 0
	oo := ObsOpts{Refs: true}
	for sc.Scan() {
		if strings.TrimSpace(sc.Text()) == "" {
			continue
		}
		k++
		if k%*mod != *rem {
			continue
		}
		if *pick > 1 {
			h := uint64(k)*0x9E3779B97F4A7C15 ^ uint64(*seed)*0xBF58476D1CE4E5B9
			h ^= h >> 31
			h *= 0x94D049BB133111EB
			h ^= h >> 29
			if h%uint64(*pick) != 0 {
				continue
			}
		}
		if nhung >= 12 {
			break // every further layout of this kind would wait for the watchdog again: the verdict (terminates) is clear
		}
		var L cvLayout
		if err := json.Unmarshal([]byte(sc.Text()), &L); err != nil {
			fatal(err)
		}
		nlay++
		for _, store := range splitList(*stores) {
			root := mkTemp("vh-conv-")
			if err := writeLayout(root, cat, L, store == "dirgc"); err != nil {
				fatal(err)
			}
			before := treeSum(root, "")
			cfg := DefaultCfg(store)
			if store == "dirgc" {
				// C06: the layout of another tool with nothing tagged but the fallback tags, opened by a directory store that
				// collects untagged manifests, has no grace period, keeps referrers only with a retained subject and removes empty repositories; the first thing that
				// happens to the repository is a collection (which loads and converts the layout itself), then a second one
				cfg = DefaultCfg("dir")
				cfg.Untagged, cfg.Grace, cfg.EmptyRepo, cfg.Dangling, cfg.WithSubj = true, false, true, true, true
				srv := NewSrv(cfg, root)
				ex := NewExec(cat, srv, *seed)
				repoDir := filepath.Join(root, cat.RepoReal["r1"])
				err1 := srv.S.VerifGC(cat.RepoReal["r1"])
				o, hung := observeGuarded(ex, "r1", oo)
				sum1 := treeSumContent(root)
				_, statErr := os.Stat(repoDir)
				var err2 error
				if !hung {
					err2 = srv.S.VerifGC(cat.RepoReal["r1"])
				}
				sum2 := treeSumContent(root)
				if statErr != nil {
					err2 = nil // (collecting a repository that the first collection removed reports that it is gone)
				}
				if err1 != nil || err2 != nil {
					o.Errs = append(o.Errs, fmt.Sprintf("gc: %v / %v", err1, err2))
				}
				events++
				_ = enc.Encode(map[string]any{"k": "conv", "i": events, "lid": k, "layout": L, "store": store, "phase": "gc", "obs": o, "hung": hung,
					"conv": false, "changed": true, "n": 0, "fsop": "", "variant": "", "idem": sum1 == sum2, "exists": statErr == nil, "bak": ""})
				if !hung {
					closeGuarded(srv)
				}
				_ = os.RemoveAll(root)
				continue
			}
			srv := NewSrv(cfg, root)
			ex := NewExec(cat, srv, *seed)
			for _, phase := range []string{"open", "reopen"} {
				if phase == "reopen" {
					_ = srv.Restart()
				}
				var o RepoObs
				var hung bool
				var snaps []crashSnap
				snapDir := ""
				if *crash && store == "dir" && phase == "open" {
					snapDir = mkTemp("vh-convsnap-")
					snaps = convSnapshots(root, snapDir, 64, func() { o, hung = observeGuarded(ex, "r1", oo) })
				} else {
					o, hung = observeGuarded(ex, "r1", oo)
				}
				events++
				_ = enc.Encode(map[string]any{"k": "conv", "i": events, "lid": k, "layout": L, "store": store, "phase": phase, "obs": o, "hung": hung,
					"conv": convMarked(root), "changed": treeSum(root, "") != before, "n": 0, "fsop": "", "variant": "", "idem": true, "exists": true, "bak": "?" + cvBakTag(cat)})
				// a new server on every crash image of the conversion has to end up with the same result
				for _, sn := range snaps {
					rsrv := NewSrv(cfg, sn.dir)
					rex := NewExec(cat, rsrv, *seed)
					ro, rhung := observeGuarded(rex, "r1", oo)
					events++
					images++
					_ = enc.Encode(map[string]any{"k": "conv", "i": events, "lid": k, "layout": L, "store": store, "phase": "crash", "obs": ro, "hung": rhung,
						"conv": convMarked(sn.dir), "changed": true, "n": sn.n, "fsop": sn.op, "variant": sn.variant, "idem": true, "exists": true, "bak": "?" + cvBakTag(cat)})
					closeGuarded(rsrv)
					_ = os.RemoveAll(sn.dir)
				}
				if snapDir != "" {
					_ = os.RemoveAll(snapDir)
				}
				if hung {
					nhung++
					break // the server is stuck: a new one would be needed, the verdict is already clear
				}
			}
			closeGuarded(srv)
			_ = os.RemoveAll(root)
		}
	}
	fmt.Fprintf(os.Stderr, "vharness: %d layouts, %d events, %d crash images\n", nlay, events, images)
}

func closeGuarded(srv *Srv) {
	done := make(chan struct{})
	go func() { _ = srv.Close(); close(done) }()
	select {
	case <-done:
	case <-time.After(5 * time.Second):
	}
}

// convMarked reports whether the index.json of the layout below root carries the converted annotation.
func convMarked(root string) bool {
	b, err := os.ReadFile(filepath.Join(root, cvRepo, "index.json"))
	if err != nil {
		return false
	}
	var idx types.Index
	return json.Unmarshal(b, &idx) == nil && idx.Annotations != nil && idx.Annotations[types.AnnotReferrerConvert] == "true"
}

// observeGuarded observes a repository but gives up at the first request that hangs (every later one would hang too).
func observeGuarded(ex *Exec, repo string, oo ObsOpts) (RepoObs, bool) {
	// probe with one request first
	hr := ex.Srv.Do("GET", "/v2/"+ex.repoReal(repo)+"/tags/list", nil, nil, true, "")
	if hr.Hung {
		return RepoObs{Blobs: []string{}, BlobsBad: []string{}, Mans: []ObsMan{}, MansBad: []string{}, Tags: []ObsTag{}, TagsBad: []string{},
			TagList: []string{}, Refs: []ObsRef{}, Sess: []ObsSess{}, Errs: []string{"hung"}}, true
	}
	o := ex.Observe(repo, oo)
	for _, e := range o.Errs {
		if strings.HasSuffix(e, ":true") { // hung flag of note()
			return o, true
		}
	}
	return o, false
}

var _ = fmt.Sprint
