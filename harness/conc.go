package main

// `vharness conc`: C11. Replays the episodes of spec/Handlers.tla (a setup, two or three requests, and a schedule: the
// order in which the requests' store calls are executed) on the real server.  Every request runs in its own goroutine;
// the tap of internal/store/verif_tap.go stops it before each store call until the scheduler lets that call through,
// so the interleaving is the one TLC chose.  Recorded: the calls each request really made (compared with the model's,
// a difference is drift), its response with logical invocation / return times, and the state observed afterwards.
// The verdict is TLC's (spec/TraceLin.tla): is the outcome that of some sequential order.

import (
	"bufio"
	"encoding/json"
	"flag"
	"fmt"
	"math/rand"
	"os"
	"path/filepath"
	"strings"
	"sync"
	"time"

	"github.com/olareg/olareg/types"
)

func init() { extraCmds["conc"] = cmdConc }

type ccReq struct {
	K string `json:"k"`
	D string `json:"d"`
	T string `json:"t"`
	S string `json:"s"`
}

type ccStep struct {
	A int    `json:"a"`
	C string `json:"c"`
}

type ccEpisode struct {
	Setup    string   `json:"setup"`
	Reqs     []ccReq  `json:"reqs"`
	Sched    []ccStep `json:"sched"`
	Adv      bool     `json:"adv,omitempty"`      // the schedule comes from the model without the referrer mutex: the real requests will wait where it interleaves critical sections
	GCOn     bool     `json:"gcon,omitempty"`     // the server collects untagged manifests and unreferenced blobs, no grace period (episodes with a collection)
	Burst    int      `json:"burst,omitempty"`    // replay: run only ungated bursts, this many
	Cold     bool     `json:"cold,omitempty"`     // replay: restart the server between setup and burst
	Order    []int    `json:"order,omitempty"`    // replay: the order of requests (0 based) a recorded run let one store call through
	Together bool     `json:"together,omitempty"` // every other random schedule releases two pending store calls at the same moment (races inside store calls)
	Integ    bool     `json:"integ,omitempty"`    // requests on one upload session: judged by integrity only (C01: whatever is served hashes to its digest)
}

const ccRepo = "conc/repo"

type ccActor struct {
	name     string
	op       Op
	arrive   chan string
	release  chan struct{}
	done     chan Resp
	started  bool
	finished bool
	pending  string
	calls    []string
	resp     Resp
	inv, ret int
}

type ccSched struct {
	stagger *rand.Rand
	mu      sync.Mutex
	actors  map[string]*ccActor
	clock   int
}

func (s *ccSched) tap(actor, repo, call, arg string, post bool, err error) {
	if actor == "" || post {
		return
	}
	s.mu.Lock()
	a := s.actors[actor]
	s.mu.Unlock()
	if a == nil {
		return
	}
	a.arrive <- call
	<-a.release
}

// settle waits until the actor stands before its next store call, has finished, or the time is up (it is blocked on
// something that is not a store call, e.g. a mutex held by a request standing at a gate).
func (s *ccSched) settle(a *ccActor, wait time.Duration) {
	select {
	case c := <-a.arrive:
		a.pending = c
	case r := <-a.done:
		a.finished = true
		a.resp = r
		s.clock++
		a.ret = s.clock
	case <-time.After(wait):
	}
}

// advance lets the actor execute one store call; false: no progress possible right now.
func (s *ccSched) advance(a *ccActor, run func(a *ccActor), wait, limbo time.Duration) bool {
	if a.op.Op == "GC" {
		// a collection makes no store calls through the tap: it is started when the schedule first names it (it takes the
		// token at once when it is free) and runs by itself as soon as the requests in flight are done
		if !a.started {
			a.started = true
			s.clock++
			a.inv = s.clock
			go run(a)
			s.settle(a, limbo)
			return true
		}
		if !a.finished {
			s.settle(a, limbo)
		}
		return false
	}
	if !a.started {
		a.started = true
		s.clock++
		a.inv = s.clock
		go run(a)
	}
	if a.finished {
		return false
	}
	if a.pending == "" {
		s.settle(a, wait)
	}
	if a.finished {
		return true
	}
	if a.pending == "" {
		return false
	}
	a.calls = append(a.calls, a.pending)
	a.pending = ""
	a.release <- struct{}{}
	s.settle(a, limbo)
	return true
}

// advanceTogether releases the pending store calls of the given actors at the same moment: the calls run in parallel, so
// that what happens inside a store call (a mutex released and taken again, a file renamed while still open) is raced.
func (s *ccSched) advanceTogether(as []*ccActor, run func(a *ccActor), wait, limbo time.Duration) bool {
	ready := []*ccActor{}
	for _, a := range as {
		if a.op.Op == "GC" {
			continue
		}
		if !a.started {
			a.started = true
			s.clock++
			a.inv = s.clock
			go run(a)
		}
		if a.finished {
			continue
		}
		if a.pending == "" {
			s.settle(a, wait)
		}
		if !a.finished && a.pending != "" {
			ready = append(ready, a)
		}
	}
	if len(ready) == 0 {
		return false
	}
	for _, a := range ready {
		a.calls = append(a.calls, a.pending)
		a.pending = ""
	}
	// (the second call follows the first after a seeded delay of 0 to 150 microseconds, so that it also arrives while
	// the first one is in the middle of its critical section)
	for i, a := range ready {
		if i > 0 && s.stagger != nil {
			if d := time.Duration(s.stagger.Intn(16)) * 10 * time.Microsecond; d > 0 {
				t0 := time.Now()
				for time.Since(t0) < d {
				}
			}
		}
		a.release <- struct{}{}
	}
	for _, a := range ready {
		s.settle(a, limbo)
	}
	return true
}

func ccOp(r ccReq) Op {
	switch r.K {
	case "Put":
		ref := Ref{K: "dig", V: "sha256:" + r.D}
		if r.T != "none" {
			ref = Ref{K: "tag", V: r.T}
		}
		return Op{Op: "ManPut", Repo: "r1", Ref: ref, Body: r.D, LenKnown: true}
	case "Del":
		if r.D != "none" {
			return Op{Op: "ManDel", Repo: "r1", Ref: Ref{K: "dig", V: "sha256:" + r.D}}
		}
		return Op{Op: "ManDel", Repo: "r1", Ref: Ref{K: "tag", V: r.T}}
	case "Refs":
		return Op{Op: "Referrers", Repo: "r1", Subject: "sha256:" + r.S}
	case "Get":
		return Op{Op: "ManGet", Repo: "r1", Ref: Ref{K: "tag", V: r.T}, Method: "GET"}
	case "Tags":
		return Op{Op: "TagsList", Repo: "r1", NC: "none", Method: "GET"}
	case "GC":
		return Op{Op: "GC", Repo: "r1"}
	case "BlobPut":
		return Op{Op: "UpPost", Repo: "r1", Dig: "sha256:" + r.D, Chunk: Chunk{C: r.D, P: "all"}}
	// requests on the open session s1 of setup s4 (it holds all of b4)
	case "UpPatch":
		return Op{Op: "UpPatch", Repo: "r1", Sess: "s1", Cr: "ok", St: "ok", Chunk: Chunk{C: r.D, P: "p1"}}
	case "UpPut":
		return Op{Op: "UpPut", Repo: "r1", Sess: "s1", St: "ok", Dig: r.T + ":" + r.D, Chunk: Chunk{C: r.D, P: "e"}}
	case "UpGet":
		return Op{Op: "UpGet", Repo: "r1", Sess: "s1"}
	case "UpDel":
		return Op{Op: "UpDel", Repo: "r1", Sess: "s1"}
	case "BlobDel":
		return Op{Op: "BlobDel", Repo: "r1", Dig: "sha256:" + r.D}
	case "BlobGet":
		return Op{Op: "BlobGet", Repo: "r1", Dig: "sha256:" + r.D, Method: "GET"}
	}
	panic("unknown request kind " + r.K)
}

func ccSetupOps(setup string) []Op {
	blob := func(b string) Op {
		return Op{Op: "UpPost", Repo: "r1", Dig: "sha256:" + b, Chunk: Chunk{C: b, P: "all"}}
	}
	put := func(d, t string) Op { return ccOp(ccReq{K: "Put", D: d, T: t}) }
	ops := []Op{blob("b1"), blob("b2"), blob("b3"), put("m1", "t1")}
	switch setup {
	case "s1":
		ops = append(ops, put("a1", "none"))
	case "s2":
		ops = append(ops, put("a1", "none"), put("a2", "none"))
	case "s3":
		ops = append(ops, put("a1", "none"), put("m2", "t2"))
	case "s5":
		// m2 under the first two of many tags, m1 under all the others: a delete of m2 by digest removes entries from the
		// front of a long list (the last entries are moved into their place) while the list is read
		ops = append(ops, put("m2", "t1"), put("m2", "t2"))
		for t := 3; t <= 24; t++ {
			ops = append(ops, put("m1", fmt.Sprintf("t%d", t)))
		}
	case "s4":
		ops = append(ops, Op{Op: "UpPost", Repo: "r1"}, Op{Op: "UpPatch", Repo: "r1", Sess: "s1", Cr: "ok", St: "ok", Chunk: Chunk{C: "b4", P: "all"}})
	}
	return ops
}

// doAs executes one request as the given actor (its store calls are gated).
func (e *Exec) doAs(actor string, op Op) Resp {
	ex := *e
	ex.Actor = actor
	ex.Sess = map[string]*sessInfo{} // client side bookkeeping is per request here: every request starts from what the setup left
	for h, si := range e.Sess {
		c := *si
		ex.Sess[h] = &c
	}
	if op.Op == "GC" {
		// a collection of the repository, as the background ticker would run it: it waits for the requests in flight
		err := e.Srv.S.VerifGC(e.repoReal(op.Repo))
		r := Resp{Status: 200, Off: -1, StOff: -1, Len: -1, Codes: []string{}, List: []string{}, ErrDoc: "none"}
		if err != nil {
			r.Status, r.Note = 500, err.Error()
		}
		return r
	}
	if op.Op == "Referrers" {
		hr := e.Srv.Do("GET", "/v2/"+e.repoReal(op.Repo)+"/referrers/"+e.digReal(op.Subject), nil, nil, true, actor)
		r := ex.project(hr)
		r.List = []string{}
		var idx types.Index
		if hr.Status == 200 && json.Unmarshal(hr.Body, &idx) == nil {
			for _, d := range idx.Manifests {
				r.List = append(r.List, e.Cat.Sym(d.Digest.String()))
			}
		}
		return r
	}
	return ex.Do(op)
}

func cmdConc(args []string) {
	fs := flag.NewFlagSet("conc", flag.ExitOnError)
	epf := fs.String("episodes", "", "ndjson of episodes (from MCHandlers)")
	out := fs.String("o", "trace.ndjson", "trace output")
	seed := fs.Int64("seed", 1, "seed")
	stores := fs.String("stores", "mem,dir", "store kinds")
	free := fs.Int("free", 0, "additionally run every episode this many times with a seeded random schedule instead of the model's")
	burst := fs.Int("burst", 0, "additionally run every episode this many times without gates: all requests start at once and run in parallel (races inside store calls); on a directory store two of three bursts start on a restarted server (cold repository cache)")
	_ = fs.Parse(args)
	in, err := os.Open(*epf)
	if err != nil {
		fatal(err)
	}
	defer in.Close()
	of, err := os.Create(*out)
	if err != nil {
		fatal(err)
	}
	w := bufio.NewWriterSize(of, 1<<20)
	defer func() { w.Flush(); of.Close() }()
	enc := json.NewEncoder(w)
	cat, err := BuildCatalogue(CatOpts{Seed: *seed, Contents: []string{"m1", "m2", "a1", "a2", "b3", "b4"}, Algs: []string{"sha256", "sha512"}, Repos: []string{ccRepo}, NTags: 24})
	if err != nil {
		fatal(err)
	}
	hdr := cat.Header()
	watchdog = 120 * time.Second
	sc := bufio.NewScanner(in)
	sc.Buffer(make([]byte, 1<<20), 1<<26)
	rng := rand.New(rand.NewSource(*seed))
	neps, nruns, drift, hung := 0, 0, 0, 0
	var firstReset map[string]any
	for sc.Scan() {
		if strings.TrimSpace(sc.Text()) == "" {
			continue
		}
		var ep ccEpisode
		if err := json.Unmarshal([]byte(sc.Text()), &ep); err != nil {
			fatal(err)
		}
		neps++
		if ep.Sched == nil {
			ep.Sched = []ccStep{}
		}
		for _, store := range splitList(*stores) {
			first, last := 0, *free+*burst
			if ep.Burst > 0 {
				first, last = *free+1, *free+ep.Burst
			}
			for variant := first; variant <= last; variant++ {
				nruns++
				isBurst := variant > *free
				cold := isBurst && store == "dir" && !ep.Integ && ((ep.Burst > 0 && ep.Cold) || (ep.Burst == 0 && (variant-*free)%3 != 0)) // (sessions do not survive a restart)
				// session episodes: every other random schedule releases two pending store calls at the same moment
				together := (ep.Integ || ep.Together) && !isBurst && variant%2 == 1 && len(ep.Order) == 0
				id := fmt.Sprintf("e%d-%s-%d", neps, store, variant)
				root := ""
				if store != "mem" {
					root = filepath.Join(mkTemp("vh-conc-"), "root")
					_ = os.MkdirAll(root, 0o755)
				}
				cfg := DefaultCfg(store)
				if ep.GCOn {
					cfg.Untagged, cfg.Grace = true, false
				}
				srv := NewSrv(cfg, root)
				sched := &ccSched{actors: map[string]*ccActor{}, stagger: rand.New(rand.NewSource(*seed + int64(nruns)))}
				srv.S.VerifTapStore(sched.tap)
				ex := NewExec(cat, srv, *seed)
				cuts := map[string]any{}
				for cid, c := range ex.Cuts {
					n := len(cat.C[cid].Bytes)
					cuts[cid] = map[string]int{"p1": c[0], "p2": c[1] - c[0], "p3": n - c[1], "all": n, "e": 0}
				}
				hdr["cuts"] = cuts
				reset := map[string]any{"k": "reset", "trace": id, "store": store, "cfg": cfg, "cat": hdr, "rootsum": "", "outsum": "", "pre": ""}
				if firstReset == nil {
					firstReset = reset
				}
				_ = enc.Encode(reset)
				ev := 0
				for _, op := range ccSetupOps(ep.Setup) {
					r := ex.Do(op)
					ev++
					// no referrers queries between setup and episode: the server's page cache stays cold, as in the model
					_ = enc.Encode(map[string]any{"k": "op", "i": ev, "op": op, "resp": r, "obs": map[string]RepoObs{"r1": ex.Observe("r1", ObsOpts{})}, "rootsum": "", "outsum": ""})
				}
				if cold {
					op := Op{Op: "Restart"}
					r := ex.Do(op)
					ev++
					_ = enc.Encode(map[string]any{"k": "op", "i": ev, "op": op, "resp": r, "obs": map[string]RepoObs{"r1": ex.Observe("r1", ObsOpts{})}, "rootsum": "", "outsum": ""})
					// the observation loaded the repository: restart once more so that the burst meets a cold cache, unobserved
					_ = srv.Restart()
					srv.S.VerifTapStore(sched.tap)
				}
				actors := []*ccActor{}
				for i, rq := range ep.Reqs {
					a := &ccActor{name: fmt.Sprintf("p%d", i+1), op: ccOp(rq), calls: []string{}, arrive: make(chan string), release: make(chan struct{}), done: make(chan Resp, 1)}
					actors = append(actors, a)
					if !isBurst {
						sched.actors[a.name] = a
					}
				}
				run := func(a *ccActor) { a.done <- ex.doAs(a.name, a.op) }
				order := []int{}
				if len(ep.Order) > 0 {
					order = ep.Order
				} else if variant == 0 {
					for _, st := range ep.Sched {
						order = append(order, st.A-1)
					}
				} else {
					for i := 0; i < 64; i++ {
						order = append(order, rng.Intn(len(actors)))
					}
				}
				wait, limbo := 2*time.Second, 30*time.Millisecond
				if ep.Adv {
					wait = 20 * time.Millisecond
				}
				if variant > 0 {
					wait, limbo = 2*time.Millisecond, 4*time.Millisecond // a random schedule may well pick a request that waits for a mutex
				}
				played := []int{}
				isHung := false
				if isBurst {
					// no gates: everything at once
					start := make(chan struct{})
					for _, a := range actors {
						a.started, a.inv = true, 1
						go func(a *ccActor) { <-start; run(a) }(a)
					}
					sched.clock = 1
					close(start)
					for _, a := range actors {
						select {
						case a.resp = <-a.done:
							a.finished = true
						case <-time.After(20 * time.Second):
							isHung = true
						}
						a.ret = 2
					}
					sched.clock = 2
				} else {
					for _, ai := range order {
						// a step is either one store call of one request or (values >= 100: ai + 100*(bi+1), as recorded in
						// `played`) the pending store calls of two requests released at the same moment
						bi := -1
						if ai >= 100 {
							ai, bi = ai%100, ai/100-1
						} else if together && len(actors) > 1 && rng.Intn(2) == 0 {
							bi = (ai + 1 + rng.Intn(len(actors)-1)) % len(actors)
						}
						if bi >= 0 {
							if sched.advanceTogether([]*ccActor{actors[ai], actors[bi]}, run, wait, limbo) {
								played = append(played, ai+100*(bi+1))
							}
							continue
						}
						if sched.advance(actors[ai], run, wait, limbo) {
							played = append(played, ai)
						}
					}
				}
				// whatever is left (the code makes more calls than the model, or the random schedule was too short)
				idle := time.Now()
				for !isBurst {
					all, progress := true, false
					for ai, a := range actors {
						if !a.finished {
							all = false
							if sched.advance(a, run, 20*time.Millisecond, limbo) {
								progress = true
								played = append(played, ai)
							}
						}
					}
					if all {
						break
					}
					if progress {
						idle = time.Now()
					} else if time.Since(idle) > 10*time.Second {
						isHung = true
						break
					}
				}
				if isHung {
					hung++
				}
				// the calls the model predicted per request
				want := make([][]string, len(actors))
				for i := range want {
					want[i] = []string{}
				}
				for _, st := range ep.Sched {
					want[st.A-1] = append(want[st.A-1], st.C)
				}
				ops := []map[string]any{}
				isDrift := false
				for i, a := range actors {
					if !a.finished {
						a.resp = Resp{Hung: true}
						sched.clock++
						a.ret = sched.clock
					}
					if variant == 0 && len(ep.Sched) > 0 && len(ep.Order) == 0 && !ep.Adv && a.op.Op != "GC" && strings.Join(a.calls, ",") != strings.Join(want[i], ",") {
						isDrift = true
					}
					ops = append(ops, map[string]any{"op": a.op, "resp": a.resp, "inv": a.inv, "ret": a.ret, "calls": a.calls, "want": want[i]})
				}
				if isDrift {
					drift++
				}
				var obs RepoObs
				if !isHung {
					obs = ex.Observe("r1", ObsOpts{Refs: true})
				} else {
					obs = RepoObs{Blobs: []string{}, BlobsBad: []string{}, Mans: []ObsMan{}, MansBad: []string{}, Tags: []ObsTag{}, TagsBad: []string{},
						TagList: []string{}, Refs: []ObsRef{}, Sess: []ObsSess{}, Errs: []string{"hung"}}
				}
				_ = enc.Encode(map[string]any{"k": "conc", "id": id, "i": ev + 1, "episode": ep, "store": store, "variant": variant, "ops": ops,
					"obs": map[string]RepoObs{"r1": obs}, "drift": isDrift, "hung": isHung, "played": played, "burst": isBurst, "cold": cold, "integ": ep.Integ})
				if !isHung {
					closeGuarded(srv)
				}
				if root != "" && os.Getenv("VH_KEEPROOT") == "" {
					_ = os.RemoveAll(filepath.Dir(root))
				}
			}
		}
	}
	if firstReset != nil {
		firstReset["trace"] = "end"
		_ = enc.Encode(firstReset) // closing reset, see TraceLin!LinReport
	}
	fmt.Fprintf(os.Stderr, "vharness: %d episodes, %d runs, %d drift, %d hung\n", neps, nruns, drift, hung)
}
