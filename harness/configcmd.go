package main

// `vharness config`: C19. Library level (olareg.New) and binary level (olareg serve --flags) answers for every
// combination of the switches, default handling, persistence per store type, the rate limiter and SIGTERM.

import (
	"bufio"
	"bytes"
	"encoding/json"
	"flag"
	"fmt"
	"io"
	"io/fs"
	"math/rand"
	"net"
	"net/http"
	"net/http/httptest"
	"os"
	"os/exec"
	"path/filepath"
	"sort"
	"strings"
	"sync"
	"syscall"
	"time"

	"github.com/olareg/olareg"
	"github.com/olareg/olareg/config"
	"github.com/olareg/olareg/types"
)

func init() { extraCmds["config"] = cmdConfig }

type cfCombo struct {
	Push       string `json:"push"`
	Delete     string `json:"delete"`
	BlobDelete string `json:"blobDelete"`
	Referrers  string `json:"referrers"`
	ReadOnly   string `json:"readOnly"`
	Store      string `json:"store"`
	Warnings   int    `json:"warnings"`
	RateLimit  int    `json:"rateLimit"`
}

type cfResp struct {
	Status   int   `json:"status"`
	Warnings []int `json:"warnings"`
	Subject  bool  `json:"subject"` // OCI-Subject header present
}

var cfWarn = []string{"first warning", "second: warning"}

func tri(v string) *bool {
	switch v {
	case "true":
		return bp(true)
	case "false":
		return bp(false)
	}
	return nil
}

func (c cfCombo) config(root string) config.Config {
	conf := config.Config{}
	if c.Store == "dir" {
		conf.Storage.StoreType = config.StoreDir
	} else {
		conf.Storage.StoreType = config.StoreMem // memory over the populated directory
	}
	conf.Storage.RootDir = root
	conf.Storage.ReadOnly = tri(c.ReadOnly)
	conf.Storage.GC.Frequency = -1
	conf.API.PushEnabled = tri(c.Push)
	conf.API.DeleteEnabled = tri(c.Delete)
	conf.API.Blob.DeleteEnabled = tri(c.BlobDelete)
	conf.API.Referrer.Enabled = tri(c.Referrers)
	conf.API.RateLimit = c.RateLimit
	conf.API.Warnings = cfWarn[:c.Warnings]
	return conf
}

func (c cfCombo) flags(root string, port int) []string {
	f := []string{"serve", "--port", fmt.Sprint(port), "--addr", "127.0.0.1", "--dir", root, "--store-type", c.Store, "--gc-frequency", "-1s"}
	add := func(name, v string) {
		if v != "unset" {
			f = append(f, "--"+name+"="+v)
		}
	}
	add("api-push", c.Push)
	add("api-delete", c.Delete)
	add("api-blob-delete", c.BlobDelete)
	add("api-referrer", c.Referrers)
	add("store-ro", c.ReadOnly)
	if c.RateLimit > 0 {
		f = append(f, "--rate-limit", fmt.Sprint(c.RateLimit))
	}
	for _, w := range cfWarn[:c.Warnings] {
		f = append(f, "--warning", w)
	}
	return f
}

// cfFixture is the populated directory every combination starts from.
type cfFixture struct {
	dir string
	cat *Catalogue
}

func newCfFixture(seed int64, referrers bool) (*cfFixture, error) {
	cat, err := BuildCatalogue(CatOpts{Seed: seed, Contents: []string{"m1", "m2", "a1", "a2", "a5", "b3"}, Algs: []string{"sha256"}, Repos: []string{"c19/repo"}, NTags: 3})
	if err != nil {
		return nil, err
	}
	dir := mkTemp("vh-c19-fix-")
	cfg := DefaultCfg("dir")
	// a layout whose referrers were converted refuses to load with the referrers API switched off (deliberate, see
	// internal/store/store.go indexIngest): combinations with the API off start from a layout created with it off
	cfg.Referrers = referrers
	srv := NewSrv(cfg, dir)
	ex := NewExec(cat, srv, seed)
	mono := func(c string) Op {
		return Op{Op: "UpPost", Repo: "r1", Dig: sym("sha256", c), Chunk: Chunk{C: c, P: "all"}}
	}
	for _, op := range []Op{mono("b1"), mono("b2"), mono("b3"),
		{Op: "ManPut", Repo: "r1", Ref: Ref{K: "tag", V: "t1"}, Body: "m1", LenKnown: true},
		{Op: "ManPut", Repo: "r1", Ref: Ref{K: "dig", V: sym("sha256", "m2")}, Body: "m2", LenKnown: true},
		{Op: "ManPut", Repo: "r1", Ref: Ref{K: "dig", V: sym("sha256", "a1")}, Body: "a1", LenKnown: true}} {
		if r := ex.Do(op); r.Status/100 != 2 {
			return nil, fmt.Errorf("fixture failed: %s %d", op.Op, r.Status)
		}
	}
	_ = srv.Close()
	return &cfFixture{dir: dir, cat: cat}, nil
}

func copyTree(src, dst string) error {
	return filepath.WalkDir(src, func(path string, d fs.DirEntry, err error) error {
		if err != nil {
			return err
		}
		rel, _ := filepath.Rel(src, path)
		if d.IsDir() {
			return os.MkdirAll(filepath.Join(dst, rel), 0o755)
		}
		b, err := os.ReadFile(path)
		if err != nil {
			return err
		}
		return os.WriteFile(filepath.Join(dst, rel), b, 0o644)
	})
}

type cfClient func(method, target string, hdr map[string]string, body []byte) (int, http.Header, []byte)

// representative requests, in an order where earlier ones do not disturb later ones
func (fx *cfFixture) run(do cfClient, emit func(class string, r cfResp)) {
	base := "/v2/c19/repo"
	real := func(c string) string { return fx.cat.SymDig[sym("sha256", c)] }
	acc := map[string]string{"Accept": types.MediaTypeOCI1Manifest + ", " + types.MediaTypeOCI1ManifestList}
	warn := func(h http.Header) []int {
		out := []int{}
		for _, v := range h.Values("Warning") {
			idx := 0
			for i, w := range cfWarn {
				if v == "299 - \""+w+"\"" {
					idx = i + 1
				}
			}
			out = append(out, idx)
		}
		return out
	}
	one := func(class, m, t string, hdr map[string]string, body []byte) (int, http.Header) {
		st, h, _ := do(m, t, hdr, body)
		emit(class, cfResp{Status: st, Warnings: warn(h), Subject: h.Get("OCI-Subject") != ""})
		return st, h
	}
	one("ping", "GET", "/v2/", nil, nil)
	one("manifestGet", "GET", base+"/manifests/"+fx.cat.TagReal["t1"], acc, nil)
	one("blobGet", "GET", base+"/blobs/"+real("b1"), nil, nil)
	one("tagsList", "GET", base+"/tags/list", nil, nil)
	one("referrersGet", "GET", base+"/referrers/"+real("m1"), nil, nil)
	one("manifestPut", "PUT", base+"/manifests/"+fx.cat.TagReal["t2"], map[string]string{"Content-Type": types.MediaTypeOCI1Manifest}, fx.cat.C["m1"].Bytes)
	one("artifactPutImage", "PUT", base+"/manifests/"+real("a2"), map[string]string{"Content-Type": types.MediaTypeOCI1Manifest}, fx.cat.C["a2"].Bytes)
	one("artifactPutIndex", "PUT", base+"/manifests/"+real("a5"), map[string]string{"Content-Type": types.MediaTypeOCI1ManifestList}, fx.cat.C["a5"].Bytes)
	st, h := one("uploadPost", "POST", base+"/blobs/uploads/", nil, nil)
	loc := base + "/blobs/uploads/nosuchsession?state=" + stateTok(0)
	if st == 202 && h.Get("Location") != "" {
		loc = h.Get("Location")
	}
	one("uploadPatch", "PATCH", loc, nil, []byte("some bytes"))
	one("manifestDelete", "DELETE", base+"/manifests/"+real("m2"), nil, nil)
	one("blobDelete", "DELETE", base+"/blobs/"+real("b3"), nil, nil)
}

func libClient(s *olareg.Server) cfClient {
	return func(method, target string, hdr map[string]string, body []byte) (int, http.Header, []byte) {
		req := httptest.NewRequest(method, target, bytes.NewReader(body))
		for k, v := range hdr {
			req.Header.Set(k, v)
		}
		rec := httptest.NewRecorder()
		s.ServeHTTP(rec, req)
		res := rec.Result()
		b, _ := io.ReadAll(res.Body)
		return res.StatusCode, res.Header, b
	}
}

func tcpClient(port int) cfClient {
	cl := &http.Client{Timeout: 10 * time.Second}
	return func(method, target string, hdr map[string]string, body []byte) (int, http.Header, []byte) {
		req, err := http.NewRequest(method, fmt.Sprintf("http://127.0.0.1:%d%s", port, target), bytes.NewReader(body))
		if err != nil {
			return -1, http.Header{}, nil
		}
		for k, v := range hdr {
			req.Header.Set(k, v)
		}
		res, err := cl.Do(req)
		if err != nil {
			return -2, http.Header{}, nil
		}
		defer res.Body.Close()
		b, _ := io.ReadAll(res.Body)
		return res.StatusCode, res.Header, b
	}
}

func freePort() int {
	l, err := net.Listen("tcp", "127.0.0.1:0")
	if err != nil {
		return 0
	}
	defer l.Close()
	return l.Addr().(*net.TCPAddr).Port
}

func waitPort(port int, d time.Duration) bool {
	end := time.Now().Add(d)
	for time.Now().Before(end) {
		c, err := net.DialTimeout("tcp", fmt.Sprintf("127.0.0.1:%d", port), 200*time.Millisecond)
		if err == nil {
			c.Close()
			return true
		}
		time.Sleep(20 * time.Millisecond)
	}
	return false
}

func cmdConfig(args []string) {
	fs := flag.NewFlagSet("config", flag.ExitOnError)
	combosF := fs.String("combos", "", "ndjson of combinations (from MCConfig)")
	rlF := fs.String("rl", "", "ndjson of rate limit behaviours (from RateLimit simulation)")
	out := fs.String("o", "trace.ndjson", "trace of answers (TraceConfig)")
	rlOut := fs.String("rlo", "rl.ndjson", "trace of the rate limiter (TraceRateLimit)")
	seed := fs.Int64("seed", 1, "seed")
	bin := fs.String("bin", "", "path of the built olareg binary (binary level checks)")
	nbin := fs.Int("nbin", 12, "number of combinations run against the binary")
	sample := fs.Int("sample", 1, "use every n-th combination at library level")
	_ = fs.Parse(args)
	fxOn, err := newCfFixture(*seed, true)
	if err != nil {
		fatal(err)
	}
	defer os.RemoveAll(fxOn.dir)
	fxOff, err := newCfFixture(*seed, false)
	if err != nil {
		fatal(err)
	}
	defer os.RemoveAll(fxOff.dir)
	fixture := func(c cfCombo) *cfFixture {
		if c.Referrers == "false" {
			return fxOff
		}
		return fxOn
	}
	combos := []cfCombo{}
	if *combosF != "" {
		in, err := os.Open(*combosF)
		if err != nil {
			fatal(err)
		}
		sc := bufio.NewScanner(in)
		for sc.Scan() {
			if strings.TrimSpace(sc.Text()) == "" {
				continue
			}
			var c cfCombo
			if err := json.Unmarshal([]byte(sc.Text()), &c); err != nil {
				fatal(err)
			}
			combos = append(combos, c)
		}
		in.Close()
	}
	of, _ := os.Create(*out)
	w := bufio.NewWriterSize(of, 1<<20)
	enc := json.NewEncoder(w)
	events := 0
	emitReq := func(level string, c cfCombo) func(string, cfResp) {
		return func(class string, r cfResp) {
			events++
			_ = enc.Encode(map[string]any{"k": "req", "i": events, "level": level, "combo": c, "class": class, "resp": r})
		}
	}
	rule := func(name string, ok bool, detail string) {
		events++
		_ = enc.Encode(map[string]any{"k": "rule", "i": events, "rule": name, "ok": ok, "detail": detail})
	}
	// (a) library level, every (sampled) combination on a fresh copy of the fixture
	scratch := mkTemp("vh-c19-")
	defer os.RemoveAll(scratch)
	for i, c := range combos {
		if (int64(i)+*seed)%int64(*sample) != 0 {
			continue
		}
		fx := fixture(c)
		root := filepath.Join(scratch, fmt.Sprintf("lib%d", i))
		if err := copyTree(fx.dir, root); err != nil {
			fatal(err)
		}
		before := treeSum(root, "")
		s := olareg.New(c.config(root))
		fx.run(libClient(s), emitReq("lib", c))
		_ = s.Close()
		// store type: a memory store and a read-only store leave the directory alone, a writable directory store persists
		after := treeSum(root, "")
		eff := c.ReadOnly == "true" || c.Store == "mem"
		if eff {
			rule("untouched", before == after, fmt.Sprintf("%+v", c))
		} else if c.Push != "false" {
			s2 := olareg.New(c.config(root))
			st, _, _ := libClient(s2)("GET", "/v2/c19/repo/manifests/"+fx.cat.TagReal["t2"], map[string]string{"Accept": types.MediaTypeOCI1Manifest}, nil)
			rule("persisted", st == 200, fmt.Sprintf("%+v status=%d", c, st))
			_ = s2.Close()
		}
		_ = os.RemoveAll(root)
	}
	// (b) defaults: unset fields take the documented defaults, explicit values survive SetDefaults
	cfDefaults(rule)
	// a memory store configured without a directory has no backing directory: started in a working directory that holds
	// layouts it serves none of them (the directory setting is the only way to layer a memory store over a directory)
	if cwd, err := os.Getwd(); err == nil {
		probe := func(conf config.Config) (int, string) {
			s := olareg.New(conf)
			defer s.Close()
			st, _, body := libClient(s)("GET", "/v2/c19/repo/tags/list", nil, nil)
			return st, string(body)
		}
		if err := os.Chdir(fxOn.dir); err == nil {
			stDir, bodyDir := probe(config.Config{Storage: config.ConfigStorage{StoreType: config.StoreMem, RootDir: "."}})
			stMem, bodyMem := probe(config.Config{Storage: config.ConfigStorage{StoreType: config.StoreMem}})
			_ = os.Chdir(cwd)
			hasTags := func(b string) bool { return strings.Contains(b, "\"tags\":[\"") }
			if stDir == 200 && hasTags(bodyDir) {
				rule("mem-without-dir-serves-nothing", !(stMem == 200 && hasTags(bodyMem)), fmt.Sprintf("status %d body %.80s", stMem, bodyMem))
			} else {
				rule("mem-without-dir-fixture", false, fmt.Sprintf("the fixture is not served by a memory store over '.': status %d body %.80s", stDir, bodyDir))
			}
		}
	}
	// (c) binary level: flag -> field wiring, SIGTERM
	if *bin != "" && len(combos) > 0 {
		rng := rand.New(rand.NewSource(*seed))
		for k := 0; k < *nbin; k++ {
			c := combos[rng.Intn(len(combos))]
			fx := fixture(c)
			root := filepath.Join(scratch, fmt.Sprintf("bin%d", k))
			if err := copyTree(fx.dir, root); err != nil {
				fatal(err)
			}
			port := freePort()
			cmd := exec.Command(*bin, c.flags(root, port)...)
			cmd.Stdout, cmd.Stderr = io.Discard, io.Discard
			if err := cmd.Start(); err != nil {
				fatal(err)
			}
			if !waitPort(port, 5*time.Second) {
				_ = cmd.Process.Kill()
				rule("binary-starts", false, fmt.Sprintf("%v", c.flags(root, port)))
				continue
			}
			fx.run(tcpClient(port), emitReq("bin", c))
			// a termination signal stops the server cleanly: exit status 0, acknowledged content intact
			_ = cmd.Process.Signal(syscall.SIGTERM)
			done := make(chan error, 1)
			go func() { done <- cmd.Wait() }()
			select {
			case err := <-done:
				rule("sigterm-exit0", err == nil, fmt.Sprintf("%v err=%v", c.flags(root, port), err))
			case <-time.After(10 * time.Second):
				_ = cmd.Process.Kill()
				rule("sigterm-exit0", false, "did not stop within 10s: "+strings.Join(c.flags(root, port), " "))
			}
			if c.Store == "dir" && c.ReadOnly != "true" && c.Push != "false" {
				s2 := olareg.New(c.config(root))
				st, _, _ := libClient(s2)("GET", "/v2/c19/repo/manifests/"+fx.cat.TagReal["t2"], map[string]string{"Accept": types.MediaTypeOCI1Manifest}, nil)
				rule("sigterm-intact", st == 200, fmt.Sprintf("%+v status=%d", c, st))
				_ = s2.Close()
			}
			_ = os.RemoveAll(root)
		}
	}
	w.Flush()
	of.Close()
	// (d) the rate limiter
	nrl := 0
	if *rlF != "" {
		nrl = cfRateLimit(*rlF, *rlOut)
	}
	fmt.Fprintf(os.Stderr, "vharness: %d combinations, %d events, %d rate limit events\n", len(combos), events, nrl)
}

func cfDefaults(rule func(string, bool, string)) {
	t, f := true, false
	// unset
	c := config.Config{Storage: config.ConfigStorage{StoreType: config.StoreDir}}
	c.SetDefaults()
	rule("default-push", c.API.PushEnabled != nil && *c.API.PushEnabled, "unset push -> true")
	rule("default-delete", c.API.DeleteEnabled != nil && !*c.API.DeleteEnabled, "unset delete -> false")
	rule("default-blobdelete", c.API.Blob.DeleteEnabled != nil && !*c.API.Blob.DeleteEnabled, "unset blob delete -> false")
	rule("default-referrer", c.API.Referrer.Enabled != nil && *c.API.Referrer.Enabled, "unset referrer -> true")
	rule("default-readonly", c.Storage.ReadOnly != nil && !*c.Storage.ReadOnly, "unset read-only -> false")
	rule("default-rootdir", c.Storage.RootDir == ".", "unset dir -> .")
	rule("default-manifest-limit", c.API.Manifest.Limit == 8*1024*1024, "manifest limit 8MiB")
	rule("default-referrer-limit", c.API.Referrer.Limit == 4*1024*1024, "referrers limit 4MiB")
	rule("default-gc", c.Storage.GC.Frequency == 15*time.Minute && c.Storage.GC.GracePeriod == time.Hour && c.Storage.GC.RepoUploadMax == 1000,
		"gc frequency 15m, grace 1h, upload max 1000")
	rule("default-gc-policy", !*c.Storage.GC.Untagged && *c.Storage.GC.EmptyRepo && !*c.Storage.GC.ReferrersDangling && *c.Storage.GC.ReferrersWithSubj,
		"gc policy defaults")
	// explicit values, every combination of the booleans
	for m := 0; m < 1<<9; m++ {
		b := func(i int) *bool {
			if m&(1<<i) != 0 {
				return &t
			}
			return &f
		}
		c := config.Config{Storage: config.ConfigStorage{StoreType: config.StoreMem, RootDir: "x", ReadOnly: b(0),
			GC: config.ConfigGC{Frequency: -1, GracePeriod: -1, RepoUploadMax: -1, Untagged: b(1), EmptyRepo: b(2), ReferrersDangling: b(3), ReferrersWithSubj: b(4)}},
			API: config.ConfigAPI{PushEnabled: b(5), DeleteEnabled: b(6), Blob: config.ConfigAPIBlob{DeleteEnabled: b(7)},
				Referrer: config.ConfigAPIReferrer{Enabled: b(8), Limit: 5, PageCacheExpire: time.Second, PageCacheLimit: 7}, Manifest: config.ConfigAPIManifest{Limit: 3}, RateLimit: 9}}
		c.SetDefaults()
		ok := *c.Storage.ReadOnly == *b(0) && *c.Storage.GC.Untagged == *b(1) && *c.Storage.GC.EmptyRepo == *b(2) && *c.Storage.GC.ReferrersDangling == *b(3) &&
			*c.Storage.GC.ReferrersWithSubj == *b(4) && *c.API.PushEnabled == *b(5) && *c.API.DeleteEnabled == *b(6) && *c.API.Blob.DeleteEnabled == *b(7) &&
			*c.API.Referrer.Enabled == *b(8) && c.Storage.GC.Frequency == -1 && c.Storage.GC.GracePeriod == -1 && c.Storage.GC.RepoUploadMax == -1 &&
			c.API.Referrer.Limit == 5 && c.API.Referrer.PageCacheExpire == time.Second && c.API.Referrer.PageCacheLimit == 7 && c.API.Manifest.Limit == 3 &&
			c.API.RateLimit == 9 && c.Storage.RootDir == "x"
		if !ok || m == 0 || m == 1<<9-1 {
			rule("explicit-preserved", ok, fmt.Sprintf("mask %09b", m))
		}
	}
}

type rlStep struct {
	A      string `json:"a"`
	T      int    `json:"t"`
	Served bool   `json:"served"`
}

type rlBehaviour struct {
	Limit int      `json:"limit"`
	Sec   int      `json:"sec"`
	Log   []rlStep `json:"log"`
}

// cfRateLimit replays (address, tick) sequences with one tick = 1s/Sec of real time; behaviours run in parallel.
func cfRateLimit(inFile, outFile string) int {
	in, err := os.Open(inFile)
	if err != nil {
		fatal(err)
	}
	defer in.Close()
	bs := []rlBehaviour{}
	sc := bufio.NewScanner(in)
	sc.Buffer(make([]byte, 1<<20), 1<<24)
	for sc.Scan() {
		if strings.TrimSpace(sc.Text()) == "" {
			continue
		}
		var b rlBehaviour
		if err := json.Unmarshal([]byte(sc.Text()), &b); err != nil {
			fatal(err)
		}
		bs = append(bs, b)
	}
	type ev struct {
		A      string `json:"a"`
		T      int64  `json:"t"`
		Status int    `json:"status"`
		Limit  int    `json:"limit"`
	}
	results := make([][]ev, len(bs))
	var wg sync.WaitGroup
	for bi := range bs {
		wg.Add(1)
		go func(bi int) {
			defer wg.Done()
			b := bs[bi]
			conf := config.Config{Storage: config.ConfigStorage{StoreType: config.StoreMem, GC: config.ConfigGC{Frequency: -1}}, API: config.ConfigAPI{RateLimit: b.Limit}}
			s := olareg.New(conf)
			defer s.Close()
			tick := time.Second / time.Duration(b.Sec)
			start := time.Now()
			for si, st := range b.Log {
				// half a tick off the boundary so that tick distances are never ambiguous in real time
				at := start.Add(time.Duration(st.T)*tick + time.Duration(si)*200*time.Microsecond)
				if d := time.Until(at); d > 0 {
					time.Sleep(d)
				}
				req := httptest.NewRequest("GET", "/v2/", nil)
				// the address is taken from X-Forwarded-For (first element) or from RemoteAddr without the port
				if bi%2 == 1 {
					// IPv6 clients connecting directly: the address is everything before the last colon
					req.RemoteAddr = "[2001:db8::" + st.A[1:] + "]:4" + fmt.Sprint(1000+si)
				} else {
					switch (bi + si) % 3 {
					case 0:
						req.RemoteAddr = "10.0.0." + st.A[1:] + ":4" + fmt.Sprint(1000+si)
					case 1:
						req.RemoteAddr = "192.0.2.9:1"
						req.Header.Set("X-Forwarded-For", "10.0.0."+st.A[1:])
					default:
						req.RemoteAddr = "192.0.2.9:1"
						req.Header.Set("X-Forwarded-For", "10.0.0."+st.A[1:]+", 172.16.0.1")
					}
				}
				t := time.Since(start).Milliseconds()
				rec := httptest.NewRecorder()
				s.ServeHTTP(rec, req)
				results[bi] = append(results[bi], ev{A: st.A, T: t, Status: rec.Code, Limit: b.Limit})
			}
		}(bi)
	}
	wg.Wait()
	// bursts: the very first requests of an address arrive at the same moment (no accounting entry exists yet); whatever
	// order the limiter sees them in, no more than the limit are served.  Logged served-first: the order most favourable
	// to the implementation among the orders simultaneous requests may be accounted in.
	for _, limit := range []int{1, 2, 3} {
		conf := config.Config{Storage: config.ConfigStorage{StoreType: config.StoreMem, GC: config.ConfigGC{Frequency: -1}}, API: config.ConfigAPI{RateLimit: limit}}
		s := olareg.New(conf)
		start := time.Now()
		burst := []ev{}
		for ai := 0; ai < 400; ai++ {
			const k = 8
			codes := make([]int, k)
			var bw sync.WaitGroup
			gate := make(chan struct{})
			t := time.Since(start).Milliseconds()
			for j := 0; j < k; j++ {
				bw.Add(1)
				go func(j int) {
					defer bw.Done()
					req := httptest.NewRequest("GET", "/v2/", nil)
					req.RemoteAddr = fmt.Sprintf("10.%d.%d.%d:4%d", limit, ai/250, ai%250+1, 1000+j)
					rec := httptest.NewRecorder()
					<-gate
					s.ServeHTTP(rec, req)
					codes[j] = rec.Code
				}(j)
			}
			close(gate)
			bw.Wait()
			sort.Slice(codes, func(x, y int) bool { return codes[x] != 429 && codes[y] == 429 })
			for _, c := range codes {
				burst = append(burst, ev{A: fmt.Sprintf("x%d", ai), T: t, Status: c, Limit: limit})
			}
		}
		_ = s.Close()
		results = append(results, burst)
	}
	of, _ := os.Create(outFile)
	w := bufio.NewWriter(of)
	enc := json.NewEncoder(w)
	n := 0
	for _, r := range results {
		_ = enc.Encode(map[string]any{"k": "reset"})
		for _, e := range r {
			n++
			_ = enc.Encode(map[string]any{"k": "req", "i": n, "a": e.A, "t": e.T, "status": e.Status, "limit": e.Limit})
		}
	}
	w.Flush()
	of.Close()
	return n
}
