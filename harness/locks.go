//go:build vsync

package main

// `vharness locks` (built with the vsync overlay): C12.
//   -mode record: runs the upload / eviction / expiry / collection / shutdown workload request by request and writes
//                 every synchronisation operation of the olareg packages (mutex, wait group, collection token) with the
//                 goroutine that issued it.  tools/props.py turns the goroutines into thread programs for spec/Locks.tla.
//   -mode stress: runs the same scripts from many goroutines at once; -edges lists the (held class > wanted class) pairs
//                 TLC found on a cycle: a goroutine about to block on the wanted class while holding the held class is
//                 delayed, which opens the window of the predicted deadlock.  A request that does not return is a hang.

import (
	"bufio"
	"bytes"
	"context"
	"encoding/json"
	"flag"
	"fmt"
	"math/rand"
	"net"
	"net/http"
	"net/http/httptest"
	"os"
	"path/filepath"
	"runtime"
	"strconv"
	"strings"
	"sync"
	"sync/atomic"
	"time"

	"github.com/opencontainers/go-digest"

	"github.com/olareg/olareg"
)

func init() { extraCmds["locks"] = cmdLocks }

func goid() int64 {
	var buf [64]byte
	n := runtime.Stack(buf[:], false)
	f := bytes.Fields(buf[:n])
	id, _ := strconv.ParseInt(string(f[1]), 10, 64)
	return id
}

type lkHeld struct {
	Class string `json:"class"`
	ID    uint64 `json:"id"`
	Kind  string `json:"kind"` // mutex | token | wg
}

type lkRec struct {
	mu     sync.Mutex
	seq    int
	epoch  int
	enc    *json.Encoder
	labels map[int64]string
	holds  map[int64][]lkHeld
	wants  map[int64]*lkHeld
	edges  map[string]bool // "held>wanted" classes to delay at
	delay  time.Duration
	rng    *rand.Rand
	delays int64
	// cancel mode: the goroutine whose label starts with gateWho stops before it locks gateClass until gateOpen is closed
	gateWho   string
	gateClass string
	gateOpen  chan struct{}
	gateHit   chan struct{}
}

func (r *lkRec) hook(op, class string, id uintptr, post bool) {
	g := goid()
	r.mu.Lock()
	r.seq++
	if r.enc != nil {
		_ = r.enc.Encode(map[string]any{"k": "sync", "seq": r.seq, "epoch": r.epoch, "g": g, "label": r.labels[g], "op": op, "class": class, "id": uint64(id), "post": post})
	}
	kind := map[string]string{"Lock": "mutex", "Unlock": "mutex", "Take": "token", "Put": "token", "Wait": "wg", "Add": "wg", "Done": "wg"}[op]
	pause := false
	switch {
	case (op == "Lock" || op == "Take" || op == "Wait") && !post:
		r.wants[g] = &lkHeld{Class: class, ID: uint64(id), Kind: kind}
		for _, h := range r.holds[g] {
			if r.edges[h.Class+">"+class] {
				pause = true
			}
		}
	case (op == "Lock" || op == "Take") && post:
		delete(r.wants, g)
		r.holds[g] = append(r.holds[g], lkHeld{Class: class, ID: uint64(id), Kind: kind})
	case op == "Wait" && post:
		delete(r.wants, g)
	case op == "Add" && post:
		r.holds[g] = append(r.holds[g], lkHeld{Class: class, ID: uint64(id), Kind: kind})
	case (op == "Unlock" || op == "Put" || op == "Done") && post:
		hs := r.holds[g]
		for i := len(hs) - 1; i >= 0; i-- {
			if hs[i].ID == uint64(id) && hs[i].Kind == kind {
				r.holds[g] = append(hs[:i:i], hs[i+1:]...)
				break
			}
		}
	}
	var gate chan struct{}
	if r.gateOpen != nil && !post && op == "Lock" && class == r.gateClass &&
		((r.gateWho != "" && strings.HasPrefix(r.labels[g], r.gateWho)) || (r.gateWho == "" && r.labels[g] == "")) {
		gate = r.gateOpen
		select {
		case r.gateHit <- struct{}{}:
		default:
		}
	}
	d := time.Duration(0)
	if pause && r.delay > 0 {
		d = time.Duration(r.rng.Int63n(int64(r.delay))) + r.delay/2
		r.delays++
	}
	r.mu.Unlock()
	if gate != nil {
		<-gate
	}
	if d > 0 {
		time.Sleep(d)
	}
}

// lkShutdown: Shutdown returns although a request that was accepted before it has not yet reached the rate limiter.
// The request is held right before it locks the server mutex, Shutdown is started, then the request is let go.
func lkShutdown(rec *lkRec, enc *json.Encoder) bool {
	ln, err := net.Listen("tcp", "127.0.0.1:0")
	if err != nil {
		fatal(err)
	}
	addr := ln.Addr().String()
	_ = ln.Close()
	conf := DefaultCfg("mem").toConfig("")
	conf.API.RateLimit = 1000
	conf.HTTP.Addr = addr
	srv := olareg.New(conf)
	label := func(name string) {
		g := goid()
		rec.mu.Lock()
		rec.labels[g] = name
		rec.mu.Unlock()
	}
	runDone := make(chan error, 1)
	go func() { label("run"); runDone <- srv.Run(context.Background()) }()
	ok, note := true, ""
	up := false
	for i := 0; i < 100 && !up; i++ {
		if c, err := net.DialTimeout("tcp", addr, 100*time.Millisecond); err == nil {
			_ = c.Close()
			up = true
		} else {
			time.Sleep(20 * time.Millisecond)
		}
	}
	if !up {
		_ = enc.Encode(map[string]any{"k": "shutdown", "ok": false, "built": false, "note": "the listener did not come up"})
		return false
	}
	rec.mu.Lock()
	rec.gateWho, rec.gateClass, rec.gateOpen, rec.gateHit = "", "Server.mu", make(chan struct{}), make(chan struct{}, 1)
	rec.mu.Unlock()
	clientDone := make(chan int, 1)
	go func() {
		label("client")
		cl := &http.Client{Timeout: 10 * time.Second}
		resp, err := cl.Get("http://" + addr + "/v2/")
		if err != nil {
			clientDone <- -1
			return
		}
		_ = resp.Body.Close()
		clientDone <- resp.StatusCode
	}()
	built := true
	select {
	case <-rec.gateHit:
	case <-time.After(3 * time.Second):
		built = false
		note = "the request never reached the rate limiter"
	}
	shutDone := make(chan error, 1)
	go func() { label("shutdown"); shutDone <- srv.Shutdown(context.Background()) }()
	time.Sleep(150 * time.Millisecond) // Shutdown now waits for the accepted request
	close(rec.gateOpen)
	status := 0
	select {
	case status = <-clientDone:
	case <-time.After(4 * time.Second):
		ok, note = false, "the accepted request got no answer within 4s of being let go"
	}
	select {
	case <-shutDone:
	case <-time.After(4 * time.Second):
		ok, note = false, "Shutdown did not return within 4s although the only request was let go"
	}
	rec.mu.Lock()
	rec.gateOpen = nil
	rec.mu.Unlock()
	_ = enc.Encode(map[string]any{"k": "shutdown", "ok": ok, "built": built, "status": status, "note": note})
	return ok
}

// lkCancel: a request that waits for a running collection returns when its context is cancelled (and everything else
// completes once the collection can finish).  The collection is kept waiting by a request stopped inside the store.
func lkCancel(rec *lkRec, cat *Catalogue, store string, enc *json.Encoder) bool {
	root := ""
	if store != "mem" {
		root = filepath.Join(mkTemp("vh-locks-"), "root")
		_ = os.MkdirAll(root, 0o755)
		defer os.RemoveAll(filepath.Dir(root))
	}
	srv := NewSrv(DefaultCfg(store), root)
	var n, hung int64
	c := &lkClient{srv: srv, repo: "lk/repo", who: "setup", n: &n, hung: &hung}
	lkScripts(cat)["manifest"](c, &lkWorld{}, rand.New(rand.NewSource(1)))
	class := map[string]string{"mem": "memRepo.mu", "dir": "dirRepo.mu"}[store]
	rec.mu.Lock()
	rec.gateWho, rec.gateClass, rec.gateOpen, rec.gateHit = "held", class, make(chan struct{}), make(chan struct{}, 1)
	rec.mu.Unlock()
	heldDone := make(chan HTTPResp, 1)
	go func() { heldDone <- srv.Do("GET", "/v2/lk/repo/tags/list", nil, nil, true, "held") }()
	ok := true
	note := ""
	select {
	case <-rec.gateHit:
	case <-time.After(3 * time.Second):
		ok, note = false, "the held request never reached the repository mutex"
	}
	gcDone := make(chan struct{})
	go func() { _ = srv.S.VerifGC("lk/repo"); close(gcDone) }()
	time.Sleep(100 * time.Millisecond) // the collection now holds the token and waits for the held request
	// a first request without a deadline waits for the collection; the cancellable one queues up behind it
	firstDone := make(chan HTTPResp, 1)
	go func() { firstDone <- srv.Do("GET", "/v2/lk/repo/tags/list", nil, nil, true, "first") }()
	time.Sleep(100 * time.Millisecond)
	ctx, cancel := context.WithCancel(olareg.VerifWithActor(context.Background(), "waiter"))
	req, _ := http.NewRequestWithContext(ctx, "GET", "/v2/lk/repo/tags/list", nil)
	req.Body = http.NoBody
	waiterDone := make(chan int, 1)
	go func() {
		rw := httptest.NewRecorder()
		srv.S.ServeHTTP(rw, req)
		waiterDone <- rw.Code
	}()
	waited := false
	select {
	case <-waiterDone:
	case <-time.After(300 * time.Millisecond):
		waited = true // as expected: it waits for the collection
	}
	cancel()
	status := 0
	select {
	case status = <-waiterDone:
	case <-time.After(3 * time.Second):
		ok, note = false, "the waiting request did not return within 3s of its context being cancelled"
	}
	close(rec.gateOpen)
	for _, ch := range []string{"held", "gc", "first"} {
		select {
		case <-heldDone:
			heldDone = nil
		case <-gcDone:
			gcDone = nil
		case <-firstDone:
			firstDone = nil
		case <-time.After(5 * time.Second):
			ok, note = false, "request or collection did not complete after the held request was released ("+ch+")"
		}
	}
	rec.mu.Lock()
	rec.gateOpen = nil
	rec.mu.Unlock()
	// requests whose context is cancelled before they start leave nothing behind: the repository stays usable
	for i := 0; i < 24; i++ {
		cctx, ccancel := context.WithCancel(olareg.VerifWithActor(context.Background(), "cancelled"))
		ccancel()
		creq, _ := http.NewRequestWithContext(cctx, []string{"GET", "HEAD"}[i%2], "/v2/lk/repo/tags/list", nil)
		creq.Body = http.NoBody
		cdone := make(chan struct{})
		go func() { srv.S.ServeHTTP(httptest.NewRecorder(), creq); close(cdone) }()
		select {
		case <-cdone:
		case <-time.After(3 * time.Second):
			ok, note = false, "a request with an already cancelled context did not return"
		}
		if !ok {
			break
		}
	}
	if ok {
		if r := srv.Do("GET", "/v2/lk/repo/tags/list", nil, nil, true, "after"); r.Hung || r.Status != 200 {
			ok, note = false, fmt.Sprintf("after requests with cancelled contexts the repository no longer answers (status %d, hung %v)", r.Status, r.Hung)
		}
	}
	if ok {
		gc2 := make(chan struct{})
		go func() { _ = srv.S.VerifGC("lk/repo"); close(gc2) }()
		select {
		case <-gc2:
		case <-time.After(5 * time.Second):
			ok, note = false, "a collection after requests with cancelled contexts did not return"
		}
	}
	closed := make(chan struct{})
	go func() { _ = srv.Close(); close(closed) }()
	select {
	case <-closed:
	case <-time.After(5 * time.Second):
		ok, note = false, "Close did not return"
	}
	_ = enc.Encode(map[string]any{"k": "cancel", "store": store, "ok": ok, "waited": waited, "status": status, "note": note})
	return ok
}

// lkCloseTicker: Close of a server whose collection ticker runs every millisecond, at a random moment of the tick: it
// returns whatever the ticker is doing (about to start a pass, inside a pass, idle).
func lkCloseTicker(cat *Catalogue, store string, rounds int, enc *json.Encoder, rng *rand.Rand) bool {
	ok, note, done := true, "", 0
	for i := 0; i < rounds && ok; i++ {
		root := ""
		if store != "mem" {
			root = filepath.Join(mkTemp("vh-locks-"), "root")
			_ = os.MkdirAll(root, 0o755)
		}
		cfg := DefaultCfg(store)
		cfg.GCFreqMs, cfg.GraceMs = 1, 20
		srv := NewSrv(cfg, root)
		if i%3 == 0 {
			_ = srv.Do("GET", "/v2/lk/repo/tags/list", nil, nil, true, "probe")
		}
		time.Sleep(time.Duration(rng.Intn(3000)) * time.Microsecond)
		closed := make(chan struct{})
		go func() { _ = srv.Close(); close(closed) }()
		select {
		case <-closed:
			done++
		case <-time.After(5 * time.Second):
			ok, note = false, fmt.Sprintf("Close of a %s store with the collection ticker running did not return (round %d)", store, i)
		}
		if root != "" {
			_ = os.RemoveAll(filepath.Dir(root))
		}
	}
	_ = enc.Encode(map[string]any{"k": "closeticker", "store": store, "ok": ok, "rounds": done, "note": note})
	return ok
}

// client side helpers (plain HTTP semantics of the distribution API)
type lkClient struct {
	srv  *Srv
	repo string
	who  string
	n    *int64
	hung *int64
}

func (c *lkClient) do(method, target string, hdr map[string]string, body []byte) HTTPResp {
	if atomic.LoadInt64(c.hung) > 0 {
		return HTTPResp{Status: -2} // something already hangs: no further requests
	}
	atomic.AddInt64(c.n, 1)
	r := c.srv.Do(method, target, hdr, body, true, c.who)
	if r.Hung {
		atomic.AddInt64(c.hung, 1)
	}
	return r
}

type lkSess struct {
	mu  sync.Mutex
	loc string // path and query of the last Location header (carries the state token)
	off int
}

func (c *lkClient) post() *lkSess {
	r := c.do("POST", "/v2/"+c.repo+"/blobs/uploads/", nil, nil)
	loc := r.Header.Get("Location")
	if r.Status != 202 || loc == "" {
		return nil
	}
	return &lkSess{loc: loc}
}

func (c *lkClient) patch(s *lkSess, data []byte) int {
	s.mu.Lock()
	loc, off := s.loc, s.off
	s.mu.Unlock()
	r := c.do("PATCH", loc, map[string]string{"Content-Type": "application/octet-stream",
		"Content-Range": fmt.Sprintf("%d-%d", off, off+len(data)-1)}, data)
	if r.Status == 202 && r.Header.Get("Location") != "" {
		s.mu.Lock()
		s.loc, s.off = r.Header.Get("Location"), off+len(data)
		s.mu.Unlock()
	}
	return r.Status
}

func (c *lkClient) put(s *lkSess, dig string) int {
	s.mu.Lock()
	loc := s.loc
	s.mu.Unlock()
	sep := "?"
	if strings.Contains(loc, "?") {
		sep = "&"
	}
	return c.do("PUT", loc+sep+"digest="+dig, nil, nil).Status
}

func (c *lkClient) path(s *lkSess) string {
	s.mu.Lock()
	defer s.mu.Unlock()
	return strings.SplitN(s.loc, "?", 2)[0]
}

type lkWorld struct {
	mu       sync.Mutex
	sessions []*lkSess // abandoned sessions of the main repository
}

func (w *lkWorld) add(s *lkSess) {
	w.mu.Lock()
	w.sessions = append(w.sessions, s)
	if len(w.sessions) > 8 {
		w.sessions = w.sessions[1:]
	}
	w.mu.Unlock()
}

func (w *lkWorld) pick(rng *rand.Rand) *lkSess {
	w.mu.Lock()
	defer w.mu.Unlock()
	if len(w.sessions) == 0 {
		return nil
	}
	return w.sessions[rng.Intn(len(w.sessions))]
}

// the scripts: each is a short client conversation
func lkScripts(cat *Catalogue) map[string]func(c *lkClient, w *lkWorld, rng *rand.Rand) {
	blob := func(rng *rand.Rand) []byte {
		b := make([]byte, 64+rng.Intn(64))
		rng.Read(b)
		return b
	}
	dig := func(id string) string { return cat.SymDig["sha256:"+id] }
	return map[string]func(c *lkClient, w *lkWorld, rng *rand.Rand){
		"upload": func(c *lkClient, w *lkWorld, rng *rand.Rand) {
			b := blob(rng)
			if s := c.post(); s != nil {
				c.patch(s, b[:32])
				c.patch(s, b[32:])
				c.put(s, digest.FromBytes(b).String())
			}
		},
		"abandon": func(c *lkClient, w *lkWorld, rng *rand.Rand) {
			b := blob(rng)
			if s := c.post(); s != nil {
				c.patch(s, b[:32])
				w.add(s)
			}
		},
		"cancel": func(c *lkClient, w *lkWorld, rng *rand.Rand) {
			b := blob(rng)
			if s := c.post(); s != nil {
				c.patch(s, b[:16])
				c.do("DELETE", c.path(s), nil, nil)
			}
		},
		"patchold": func(c *lkClient, w *lkWorld, rng *rand.Rand) {
			if s := w.pick(rng); s != nil {
				c.do("GET", c.path(s), nil, nil)
				c.patch(s, blob(rng)[:8])
			}
		},
		"finishold": func(c *lkClient, w *lkWorld, rng *rand.Rand) {
			if s := w.pick(rng); s != nil {
				c.put(s, "sha256:"+strings.Repeat("0", 64))
			}
		},
		"manifest": func(c *lkClient, w *lkWorld, rng *rand.Rand) {
			for _, b := range []string{"b1", "b2"} {
				c.do("POST", "/v2/"+c.repo+"/blobs/uploads/?digest="+dig(b), nil, cat.C[b].Bytes)
			}
			ct := map[string]string{"Content-Type": mtLong["oci.image"]}
			c.do("PUT", "/v2/"+c.repo+"/manifests/latest", ct, cat.C["m1"].Bytes)
			c.do("PUT", "/v2/"+c.repo+"/manifests/"+dig("a1"), ct, cat.C["a1"].Bytes)
			c.do("GET", "/v2/"+c.repo+"/manifests/latest", nil, nil)
			c.do("GET", "/v2/"+c.repo+"/tags/list", nil, nil)
			c.do("GET", "/v2/"+c.repo+"/referrers/"+dig("m1"), nil, nil)
			c.do("DELETE", "/v2/"+c.repo+"/manifests/"+dig("a1"), nil, nil)
		},
		"mount": func(c *lkClient, w *lkWorld, rng *rand.Rand) {
			c.do("POST", "/v2/lk/other/blobs/uploads/?digest="+dig("b3"), nil, cat.C["b3"].Bytes)
			c.do("POST", "/v2/"+c.repo+"/blobs/uploads/?mount="+dig("b3")+"&from=lk/other", nil, nil)
			c.do("DELETE", "/v2/"+c.repo+"/blobs/"+dig("b3"), nil, nil)
		},
		"mountmiss": func(c *lkClient, w *lkWorld, rng *rand.Rand) {
			// a mount whose source repository lacks the blob (falls back to a session), then a collection of the source
			c.do("POST", "/v2/lk/other/blobs/uploads/?digest="+dig("b3"), nil, cat.C["b3"].Bytes)
			c.do("POST", "/v2/"+c.repo+"/blobs/uploads/?mount=sha256:"+strings.Repeat("1", 64)+"&from=lk/other", nil, nil)
			if atomic.LoadInt64(c.hung) > 0 {
				return
			}
			done := make(chan struct{})
			go func() { _ = c.srv.S.VerifGC("lk/other"); close(done) }()
			select {
			case <-done:
			case <-time.After(watchdog):
				atomic.AddInt64(c.hung, 1)
			}
			atomic.AddInt64(c.n, 1)
		},
		"gc": func(c *lkClient, w *lkWorld, rng *rand.Rand) {
			done := make(chan struct{})
			if atomic.LoadInt64(c.hung) > 0 {
				return
			}
			go func() { _ = c.srv.S.VerifGC(c.repo); close(done) }()
			select {
			case <-done:
			case <-time.After(watchdog):
				atomic.AddInt64(c.hung, 1)
			}
			atomic.AddInt64(c.n, 1)
		},
	}
}

var lkOrder = []string{"manifest", "upload", "abandon", "abandon", "patchold", "abandon", "patchold", "finishold", "cancel", "mount", "mountmiss", "gc", "upload", "patchold"}

func cmdLocks(args []string) {
	fs := flag.NewFlagSet("locks", flag.ExitOnError)
	mode := fs.String("mode", "record", "record | stress")
	out := fs.String("o", "locks.ndjson", "output")
	seed := fs.Int64("seed", 1, "seed")
	stores := fs.String("stores", "dir,mem", "store kinds")
	edges := fs.String("edges", "", "stress: comma separated held>wanted class pairs to delay at")
	secs := fs.Float64("secs", 3, "stress: duration per configuration")
	delayMs := fs.Int("delay", 20, "stress: mean delay at a listed edge in milliseconds")
	_ = fs.Parse(args)
	of, err := os.Create(*out)
	if err != nil {
		fatal(err)
	}
	w := bufio.NewWriterSize(of, 1<<20)
	defer func() { w.Flush(); of.Close() }()
	enc := json.NewEncoder(w)
	cat, err := BuildCatalogue(CatOpts{Seed: *seed, Contents: []string{"m1", "a1", "b3"}, Algs: []string{"sha256"}, Repos: []string{"lk/repo", "lk/other"}, NTags: 1})
	if err != nil {
		fatal(err)
	}
	rec := &lkRec{labels: map[int64]string{}, holds: map[int64][]lkHeld{}, wants: map[int64]*lkHeld{}, edges: map[string]bool{}, rng: rand.New(rand.NewSource(*seed))}
	for _, e := range splitList(*edges) {
		rec.edges[e] = true
	}
	if *mode == "record" {
		rec.enc = enc
	} else {
		rec.delay = time.Duration(*delayMs) * time.Millisecond
	}
	goroutineStart = func(actor, what string) {
		g := goid()
		rec.mu.Lock()
		rec.labels[g] = actor + " " + what
		rec.mu.Unlock()
	}
	goroutineEnd = func() {}
	olareg.VerifSetSyncHook(rec.hook)
	watchdog = 5 * time.Second
	scripts := lkScripts(cat)
	// configurations: session limit 1 (eviction on every second session), short grace period (expiry of sessions and of the
	// repository cache entries of a directory store) with the collection ticker running
	cfgs := []SrvCfg{}
	for _, st := range splitList(*stores) {
		a := DefaultCfg(st)
		a.UploadMax = 1
		b := DefaultCfg(st)
		b.GraceMs, b.GCFreqMs = 60, 40
		c := DefaultCfg(st)
		c.UploadMax, c.GraceMs, c.GCFreqMs = 2, 80, 50
		cfgs = append(cfgs, a, b, c)
	}
	var nreq, nhung int64
	if *mode == "cancel" {
		bad := 0
		for _, st := range splitList(*stores) {
			if !lkCancel(rec, cat, st, enc) {
				bad++
			}
		}
		if !lkShutdown(rec, enc) {
			bad++
		}
		for _, st := range splitList(*stores) {
			if !lkCloseTicker(cat, st, 300, enc, rand.New(rand.NewSource(*seed))) {
				bad++
			}
		}
		fmt.Fprintf(os.Stderr, "vharness: cancel scenarios, %d failed\n", bad)
		return
	}
	results := []map[string]any{}
	for ci, cfg := range cfgs {
		if atomic.LoadInt64(&nhung) > 0 {
			break
		}
		root := ""
		if cfg.Store != "mem" {
			root = filepath.Join(mkTemp("vh-locks-"), "root")
			_ = os.MkdirAll(root, 0o755)
		}
		rec.mu.Lock()
		rec.epoch = ci + 1
		rec.mu.Unlock()
		srv := NewSrv(cfg, root)
		world := &lkWorld{}
		before := atomic.LoadInt64(&nhung)
		if *mode == "record" {
			rng := rand.New(rand.NewSource(*seed + int64(ci)))
			for round := 0; round < 2; round++ {
				for i, name := range lkOrder {
					c := &lkClient{srv: srv, repo: "lk/repo", who: fmt.Sprintf("%s#%d", name, i), n: &nreq, hung: &nhung}
					scripts[name](c, world, rng)
					if cfg.GraceMs > 0 && i%4 == 3 {
						time.Sleep(time.Duration(cfg.GraceMs+cfg.GraceMs/2) * time.Millisecond) // let sessions expire
					}
				}
			}
		} else {
			var wg sync.WaitGroup
			stop := time.Now().Add(time.Duration(*secs * float64(time.Second)))
			for gi := 0; gi < 10; gi++ {
				wg.Add(1)
				go func(gi int) {
					defer wg.Done()
					rng := rand.New(rand.NewSource(*seed*977 + int64(ci*100+gi)))
					names := []string{"abandon", "patchold", "upload", "cancel", "finishold", "manifest", "mount", "gc", "patchold", "abandon", "mountmiss"}
					for k := 0; time.Now().Before(stop) && atomic.LoadInt64(&nhung) == before; k++ {
						name := names[(gi+k)%len(names)]
						if gi < 4 { // the first goroutines concentrate on sessions
							name = []string{"abandon", "patchold", "patchold", "finishold"}[(gi+k)%4]
						}
						c := &lkClient{srv: srv, repo: "lk/repo", who: name, n: &nreq, hung: &nhung}
						scripts[name](c, world, rng)
					}
				}(gi)
			}
			wg.Wait()
		}
		// Close must return
		closed := make(chan struct{})
		go func() { _ = srv.Close(); close(closed) }()
		closeHung := false
		select {
		case <-closed:
		case <-time.After(watchdog):
			closeHung = true
			atomic.AddInt64(&nhung, 1)
		}
		res := map[string]any{"k": "config", "epoch": ci + 1, "cfg": cfg, "hung": atomic.LoadInt64(&nhung) - before, "closeHung": closeHung, "stuck": []any{}}
		if atomic.LoadInt64(&nhung) > before {
			// who waits for what, holding what
			rec.mu.Lock()
			stuck := []map[string]any{}
			for g, wnt := range rec.wants {
				stuck = append(stuck, map[string]any{"g": g, "label": rec.labels[g], "wants": wnt, "holds": rec.holds[g]})
			}
			rec.mu.Unlock()
			res["stuck"] = stuck
			buf := make([]byte, 1<<20)
			res["dump"] = string(buf[:runtime.Stack(buf, true)])
		}
		results = append(results, res)
		if *mode == "stress" {
			_ = enc.Encode(res)
		} else {
			rec.mu.Lock()
			_ = enc.Encode(res)
			rec.mu.Unlock()
		}
		if root != "" && atomic.LoadInt64(&nhung) == before {
			_ = os.RemoveAll(filepath.Dir(root))
		}
	}
	rec.mu.Lock()
	delays := rec.delays
	rec.mu.Unlock()
	fmt.Fprintf(os.Stderr, "vharness: %d configurations, %d requests, %d hung, %d delays\n", len(cfgs), nreq, nhung, delays)
}
