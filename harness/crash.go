//go:build vfs

package main

// `vharness crash` (built with the vfs overlay): C09. Executes histories on the directory store, snapshots the root
// directory right before every mutating file system call (= the state a process crash at that point leaves), opens a
// new server on every snapshot and records what it presents.

import (
	"bufio"
	"bytes"
	"encoding/json"
	"flag"
	"fmt"
	"os"
	"path/filepath"
	"strings"

	"github.com/olareg/olareg"
)

func init() { extraCmds["crash"] = cmdCrash }

type crashSnap struct {
	n       int
	op      string
	paths   []string
	variant string
	dir     string
}

func cmdCrash(args []string) {
	fs := flag.NewFlagSet("crash", flag.ExitOnError)
	progs := fs.String("programs", "", "ndjson file of programs")
	out := fs.String("o", "trace.ndjson", "trace output")
	seed := fs.Int64("seed", 1, "seed")
	maxSnaps := fs.Int("maxsnaps", 400, "upper bound of crash images per program")
	_ = fs.Parse(args)
	in, err := os.Open(*progs)
	if err != nil {
		fatal(err)
	}
	defer in.Close()
	of, err := os.Create(*out)
	if err != nil {
		fatal(err)
	}
	w := bufio.NewWriterSize(of, 1<<20)
	defer func() { w.Flush(); of.Close() }()
	enc := json.NewEncoder(w)
	sc := bufio.NewScanner(in)
	sc.Buffer(make([]byte, 1<<20), 1<<26)
	nprog, events, images := 0, 0, 0
	oo := ObsOpts{Refs: true, Disk: true}
	for sc.Scan() {
		line := strings.TrimSpace(sc.Text())
		if line == "" {
			continue
		}
		var p Program
		if err := json.Unmarshal([]byte(line), &p); err != nil {
			fatal(err)
		}
		nprog++
		ev, im, err := crashProgram(&p, *seed, oo, enc, *maxSnaps)
		if err != nil {
			fatal(err)
		}
		events += ev
		images += im
	}
	fmt.Fprintf(os.Stderr, "vharness: %d programs, %d events, %d crash images\n", nprog, events, images)
}

func crashProgram(p *Program, seed int64, oo ObsOpts, enc *json.Encoder, maxSnaps int) (int, int, error) {
	pseed := seed*1000003 + p.Seed
	cat, err := BuildCatalogue(CatOpts{Seed: pseed, Contents: p.Contents, Algs: p.Algs, Repos: p.Repos, NTags: p.NTags, TagStyle: p.TagStyle})
	if err != nil {
		return 0, 0, err
	}
	cfg := DefaultCfg("dir")
	if p.Cfg != nil {
		cfg = *p.Cfg
		cfg.Store = "dir"
	}
	sandbox := mkTemp("vh-crash-")
	defer os.RemoveAll(sandbox)
	root := filepath.Join(sandbox, "root")
	_ = os.MkdirAll(root, 0o755)
	srv := NewSrv(cfg, root)
	defer func() { olareg.VerifSetVfsHook(nil); _ = srv.Close() }()
	ex := NewExec(cat, srv, pseed)
	hdr := cat.Header()
	cuts := map[string]any{}
	for id, c := range ex.Cuts {
		n := len(cat.C[id].Bytes)
		cuts[id] = map[string]int{"p1": c[0], "p2": c[1] - c[0], "p3": n - c[1], "all": n, "e": 0}
	}
	hdr["cuts"] = cuts
	if err := enc.Encode(map[string]any{"k": "reset", "trace": p.ID + "@dir", "store": "dir", "cfg": cfg, "cat": hdr, "rootsum": "", "outsum": "", "pre": ""}); err != nil {
		return 0, 0, err
	}
	armed := false
	nfs := 0
	snaps := []crashSnap{}
	snapDir := filepath.Join(sandbox, "snaps")
	take := func(op string, paths []string, variant string, mutate func(dir string)) {
		if len(snaps) >= maxSnaps {
			return
		}
		d := filepath.Join(snapDir, fmt.Sprintf("%d-%s", nfs, variant))
		if err := copyTree(root, d); err != nil {
			return
		}
		if mutate != nil {
			mutate(d)
		}
		snaps = append(snaps, crashSnap{n: nfs, op: op, paths: paths, variant: variant, dir: d})
	}
	olareg.VerifSetVfsHook(func(op string, paths []string, data []byte) {
		if !armed {
			return
		}
		nfs++
		take(op, paths, "before", nil)
		rel := func(p string) string { r, _ := filepath.Rel(root, p); return r }
		switch op {
		case "Rename":
			// a crash while the temp file was being written: same image, the temp file shorter
			take(op, paths, "tmphalf", func(d string) {
				f := filepath.Join(d, rel(paths[0]))
				if b, err := os.ReadFile(f); err == nil {
					_ = os.WriteFile(f, b[:len(b)/2], 0o644)
				}
			})
		case "WriteFile":
			// a crash part-way through an in-place write
			take(op, paths, "partial", func(d string) {
				_ = os.WriteFile(filepath.Join(d, rel(paths[0])), data[:len(data)/2], 0o644)
			})
		}
	})
	events, images := 0, 0
	for _, op := range p.Ops {
		for _, primf := range ex.Expand(op) {
			prim := primf()
			snaps = snaps[:0]
			armed = true
			r := ex.Do(prim)
			armed = false
			o := map[string]RepoObs{}
			for _, rm := range cat.Repos {
				o[rm] = ex.Observe(rm, oo)
			}
			events++
			if err := enc.Encode(map[string]any{"k": "op", "i": events, "op": prim, "resp": r, "obs": o, "rootsum": "", "outsum": ""}); err != nil {
				return events, images, err
			}
			// recover from every image taken during this operation
			for _, s := range snaps {
				rsrv := NewSrv(cfg, s.dir)
				rex := NewExec(cat, rsrv, pseed)
				ro := map[string]RepoObs{}
				for _, rm := range cat.Repos {
					ro[rm] = rex.Observe(rm, oo)
				}
				// the recovered repository is fully usable: a blob pushed to it now is there for a server that opens the directory afterwards
				cont := map[string]any{"post": 0, "get": 0, "ok": false}
				for _, id := range cat.Order {
					if ct := cat.C[id]; ct.Def.Kind == "blob" && len(ct.Bytes) > 0 && id != "nx" {
						real := cat.SymDig[sym("sha256", id)]
						repo := cat.RepoReal[cat.Repos[0]]
						p1 := rsrv.Do("POST", "/v2/"+repo+"/blobs/uploads/?digest="+real, nil, ct.Bytes, true, "")
						// (a second server on the same directory, as after a restart, but without the collection a Close would run:
						//  under some policies of the scenarios an unreferenced blob is garbage at once)
						rs2 := NewSrv(cfg, s.dir)
						g := rs2.Do("GET", "/v2/"+repo+"/blobs/"+real, nil, nil, true, "")
						_ = rs2.Close()
						cont = map[string]any{"post": p1.Status, "get": g.Status, "ok": bytes.Equal(g.Body, ct.Bytes)}
						break
					}
				}
				_ = rsrv.Close()
				images++
				rp := []string{}
				for _, x := range s.paths {
					rr, _ := filepath.Rel(root, x)
					rp = append(rp, rr)
				}
				if err := enc.Encode(map[string]any{"k": "crash", "during": events, "n": s.n, "fsop": s.op, "paths": rp, "variant": s.variant, "obs": ro, "cont": cont}); err != nil {
					return events, images, err
				}
				_ = os.RemoveAll(s.dir)
			}
		}
	}
	return events, images, nil
}
