//go:build vclock

package main

// Built with the cache overlay (internal/cache on a virtual clock, spawned count prunes queued): the harness decides
// when time passes, when due age timers fire and when a queued prune runs (C08).

import (
	"time"

	"github.com/olareg/olareg"
)

func init() {
	vclockOn = true
	vclockReset = olareg.VerifClockReset
	vclockAdvance = func(sec int) { olareg.VerifClockAdvance(time.Duration(sec) * time.Second) }
	vclockFire = func() int {
		n := 0
		for olareg.VerifClockFireDue() {
			n++
		}
		return n
	}
	vclockPending = olareg.VerifClockPending
	vclockRunQueued = func() int {
		n := 0
		for olareg.VerifClockRunQueued() {
			n++
		}
		return n
	}
}
