//go:build vfs

package main

import (
	"fmt"
	"os"
	"path/filepath"

	"github.com/olareg/olareg"
)

// convSnapshots runs fn and returns a copy of root as it was right before every mutating file system call fn made
// (plus the half written temp file variant before each rename): the states a crash of the conversion leaves.
func convSnapshots(root, snapDir string, max int, fn func()) []crashSnap {
	snaps := []crashSnap{}
	nfs := 0
	take := func(op string, paths []string, variant string, mutate func(dir string)) {
		if len(snaps) >= max {
			return
		}
		d := filepath.Join(snapDir, fmt.Sprintf("%d-%s", nfs, variant))
		if err := copyTree(root, d); err != nil {
			return
		}
		if mutate != nil {
			mutate(d)
		}
		snaps = append(snaps, crashSnap{n: nfs, op: op, paths: paths, variant: variant, dir: d})
	}
	olareg.VerifSetVfsHook(func(op string, paths []string, data []byte) {
		nfs++
		take(op, paths, "before", nil)
		if op == "Rename" {
			take(op, paths, "tmphalf", func(d string) {
				r, _ := filepath.Rel(root, paths[0])
				f := filepath.Join(d, r)
				if b, err := os.ReadFile(f); err == nil {
					_ = os.WriteFile(f, b[:len(b)/2], 0o644)
				}
			})
		}
	})
	fn()
	olareg.VerifSetVfsHook(nil)
	// the state after the last call = the completed conversion, opened again by "reopen"
	return snaps
}

const convCrashAvailable = true
