package main

// `vharness index`: replays operation sequences on the real types.Index (C18) and records, after every
// operation, the projection of the index through its public surface.

import (
	"bufio"
	"encoding/json"
	"flag"
	"fmt"
	"math/rand"
	"os"
	"strings"

	"github.com/opencontainers/go-digest"

	"github.com/olareg/olareg/types"
)

func init() { extraCmds["index"] = cmdIndex }

type ixEntry struct {
	D string `json:"d"`
	T string `json:"t"`
	S string `json:"s"`
}

type ixOp struct {
	Op       string   `json:"op"`
	D        string   `json:"d"`
	T        string   `json:"t"`
	S        string   `json:"s"`
	Children []string `json:"children"`
}

type ixStep struct {
	Op ixOp      `json:"op"`
	M  []ixEntry `json:"m"` // list predicted by IndexImpl (nil: no prediction)
	C  []string  `json:"c"`
}

type ixProgram struct {
	ID    string   `json:"id"`
	Steps []ixStep `json:"steps"`
	Digs  []string `json:"digs"`
	Tags  []string `json:"tags"`
	Subjs []string `json:"subjs"`
}

type ixProj struct {
	List   []ixEntry         `json:"list"`
	ByTag  map[string]string `json:"bytag"`
	BySubj map[string]string `json:"bysubj"`
	ByDig  map[string]bool   `json:"bydig"`
}

type ixUniverse struct {
	digs, tags, subjs []string
	real              map[string]digest.Digest // model digest / subject name -> real digest
	model             map[digest.Digest]string
}

func newIxUniverse(p *ixProgram) *ixUniverse {
	u := &ixUniverse{digs: p.Digs, tags: p.Tags, subjs: p.Subjs, real: map[string]digest.Digest{}, model: map[digest.Digest]string{}}
	for _, d := range append(append([]string{}, p.Digs...), p.Subjs...) {
		r := digest.FromString("content of " + d)
		u.real[d] = r
		u.model[r] = d
	}
	return u
}

func (u *ixUniverse) desc(d, t, s string) types.Descriptor {
	dd := types.Descriptor{MediaType: types.MediaTypeOCI1Manifest, Size: 7}
	if d != "" {
		dd.Digest = u.real[d]
	}
	if t != "" || s != "" {
		dd.Annotations = map[string]string{}
		if t != "" {
			dd.Annotations[types.AnnotRefName] = t
		}
		if s != "" {
			dd.Annotations[types.AnnotReferrerSubject] = u.real[s].String()
		}
	}
	return dd
}

func (u *ixUniverse) subjModel(real string) string {
	if real == "" {
		return ""
	}
	if m, ok := u.model[digest.Digest(real)]; ok {
		return m
	}
	return "?" + real
}

func (u *ixUniverse) project(i *types.Index) ixProj {
	p := ixProj{List: []ixEntry{}, ByTag: map[string]string{}, BySubj: map[string]string{}, ByDig: map[string]bool{}}
	for _, m := range i.Manifests {
		e := ixEntry{D: u.model[m.Digest]}
		if m.Annotations != nil {
			e.T = m.Annotations[types.AnnotRefName]
			e.S = u.subjModel(m.Annotations[types.AnnotReferrerSubject])
		}
		p.List = append(p.List, e)
	}
	for _, t := range u.tags {
		d, err := i.GetDesc(t)
		if err == nil {
			p.ByTag[t] = u.model[d.Digest]
		} else {
			p.ByTag[t] = ""
		}
	}
	for _, s := range u.subjs {
		d, err := i.GetByAnnotation(types.AnnotReferrerSubject, u.real[s].String())
		if err == nil {
			p.BySubj[s] = u.model[d.Digest]
		} else {
			p.BySubj[s] = ""
		}
	}
	for _, d := range u.digs {
		_, err := i.GetDesc(u.real[d].String())
		p.ByDig[d] = err == nil
	}
	return p
}

// childDesc is the descriptor of a child as an index body lists it: such descriptors often carry a reference name
// annotation of their own, which must never make the child answer to a tag
func (u *ixUniverse) childDesc(c string) types.Descriptor {
	d := u.desc(c, "", "")
	for k, x := range u.digs {
		if x == c && len(u.tags) > 0 {
			d.Annotations = map[string]string{types.AnnotRefName: u.tags[k%len(u.tags)]}
		}
	}
	return d
}

func (u *ixUniverse) apply(i *types.Index, o ixOp) (panicked bool) {
	defer func() {
		if r := recover(); r != nil {
			panicked = true
		}
	}()
	switch o.Op {
	case "AddDesc":
		if len(o.Children) > 0 {
			ch := []types.Descriptor{}
			for _, c := range o.Children {
				ch = append(ch, u.childDesc(c))
			}
			i.AddDesc(u.desc(o.D, o.T, o.S), types.IndexWithChildren(ch))
		} else {
			i.AddDesc(u.desc(o.D, o.T, o.S))
		}
	case "RmDesc":
		i.RmDesc(u.desc(o.D, o.T, o.S))
	case "AddChildren":
		ch := []types.Descriptor{}
		for _, c := range o.Children {
			ch = append(ch, u.childDesc(c))
		}
		i.AddChildren(ch)
	}
	return false
}

// randomSteps generates a sequence in Go (no model prediction): reaches states a drifted implementation could enter.
func randomSteps(rng *rand.Rand, u *ixUniverse, n int) []ixStep {
	steps := []ixStep{}
	pick := func(xs []string) string { return xs[rng.Intn(len(xs))] }
	inChild := map[string]bool{}
	for len(steps) < n {
		o := ixOp{Children: []string{}}
		switch r := rng.Intn(10); {
		case r < 5:
			o.Op, o.D = "AddDesc", pick(u.digs)
			switch rng.Intn(4) {
			case 0, 1:
				o.T = pick(u.tags)
			case 2:
				if len(u.subjs) > 0 {
					o.S = pick(u.subjs)
				}
			}
			for k := rng.Intn(3); k > 0; k-- {
				if c := pick(u.digs); c != o.D {
					o.Children = append(o.Children, c)
				}
			}
			delete(inChild, o.D)
		case r < 9:
			o.Op = "RmDesc"
			switch rng.Intn(5) {
			case 0, 1:
				o.D = pick(u.digs)
				delete(inChild, o.D)
			case 2:
				o.D, o.T = pick(u.digs), pick(u.tags)
			case 3:
				o.T = pick(u.tags)
			default:
				if len(u.subjs) > 0 {
					o.S = pick(u.subjs)
				} else {
					o.T = pick(u.tags)
				}
			}
		default:
			// the stores only add children they have not seen
			c := pick(u.digs)
			if inChild[c] {
				continue
			}
			o.Op, o.Children = "AddChildren", []string{c}
			inChild[c] = true
		}
		steps = append(steps, ixStep{Op: o})
	}
	return steps
}

func cmdIndex(args []string) {
	fs := flag.NewFlagSet("index", flag.ExitOnError)
	progs := fs.String("programs", "", "ndjson of programs with model predictions (from MCIndex)")
	out := fs.String("o", "trace.ndjson", "trace output")
	nrand := fs.Int("random", 0, "number of additional random sequences generated in Go")
	rlen := fs.Int("len", 60, "length of random sequences")
	seed := fs.Int64("seed", 1, "seed")
	_ = fs.Parse(args)
	of, err := os.Create(*out)
	if err != nil {
		fatal(err)
	}
	w := bufio.NewWriterSize(of, 1<<20)
	defer func() { w.Flush(); of.Close() }()
	enc := json.NewEncoder(w)
	programs := []ixProgram{}
	if *progs != "" {
		in, err := os.Open(*progs)
		if err != nil {
			fatal(err)
		}
		sc := bufio.NewScanner(in)
		sc.Buffer(make([]byte, 1<<20), 1<<26)
		for sc.Scan() {
			if strings.TrimSpace(sc.Text()) == "" {
				continue
			}
			var p ixProgram
			if err := json.Unmarshal([]byte(sc.Text()), &p); err != nil {
				fatal(err)
			}
			programs = append(programs, p)
		}
		in.Close()
	}
	rng := rand.New(rand.NewSource(*seed))
	for k := 0; k < *nrand; k++ {
		p := ixProgram{ID: fmt.Sprintf("rand-%d", k), Digs: []string{"d1", "d2", "d3", "d4"}, Tags: []string{"t1", "t2", "t3"}, Subjs: []string{"s1", "s2"}}
		if k%3 == 0 {
			p.Digs, p.Tags, p.Subjs = []string{"d1", "d2"}, []string{"t1", "t2"}, []string{"s1"}
		}
		p.Steps = randomSteps(rng, newIxUniverse(&p), *rlen)
		programs = append(programs, p)
	}
	events, drift := 0, 0
	for pi := range programs {
		p := &programs[pi]
		u := newIxUniverse(p)
		nod := map[string]bool{}
		for _, d := range p.Digs {
			nod[d] = false
		}
		_ = enc.Encode(map[string]any{"k": "reset", "trace": p.ID, "nodigs": nod})
		idx := types.Index{}
		var cp *types.Index
		copyAt := len(p.Steps) / 3
		mutAt := (2 * len(p.Steps)) / 3
		emit := func(o ixOp, panicked, dr bool) {
			events++
			var cproj any = u.project(&idx)
			if cp != nil {
				cproj = u.project(cp)
			}
			_ = enc.Encode(map[string]any{"k": "op", "trace": p.ID, "i": events, "op": o, "proj": u.project(&idx), "copy": cproj,
				"panic": panicked, "drift": dr})
		}
		for si, st := range p.Steps {
			if si == copyAt {
				c := idx.Copy()
				cp = &c
				emit(ixOp{Op: "Copy", Children: []string{}}, false, false)
			}
			if si == mutAt && cp != nil {
				// mutate the copy: the original must not change
				cp.AddDesc(u.desc(p.Digs[0], p.Tags[0], ""))
				cp.RmDesc(u.desc(p.Digs[len(p.Digs)-1], "", ""))
				if len(cp.Manifests) > 0 && cp.Manifests[0].Annotations != nil {
					cp.Manifests[0].Annotations[types.AnnotRefName] = "mutated"
				}
				emit(ixOp{Op: "MutCopy", Children: []string{}}, false, false)
				cp = nil
			}
			if st.Op.Op == "End" {
				continue
			}
			if st.Op.Children == nil {
				st.Op.Children = []string{}
			}
			if st.Op.Op == "AddChildren" && st.M == nil {
				// the stores only record children they have not seen: skip when already reachable
				skipStep := false
				for _, c := range st.Op.Children {
					if _, err := idx.GetDesc(u.real[c].String()); err == nil {
						skipStep = true
					}
				}
				if skipStep {
					continue
				}
			}
			panicked := u.apply(&idx, st.Op)
			dr := false
			if st.M != nil {
				got := u.project(&idx).List
				if len(got) != len(st.M) {
					dr = true
				} else {
					for k := range got {
						if got[k] != st.M[k] {
							dr = true
						}
					}
				}
			}
			if dr {
				drift++
			}
			emit(st.Op, panicked, dr)
		}
	}
	fmt.Fprintf(os.Stderr, "vharness: %d programs, %d events, %d drift\n", len(programs), events, drift)
}
