//go:build !vfs

package main

type crashSnap struct {
	n       int
	op      string
	paths   []string
	variant string
	dir     string
}

func convSnapshots(root, snapDir string, max int, fn func()) []crashSnap { fn(); return nil }

const convCrashAvailable = false
