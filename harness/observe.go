package main

// The observer (abstraction function alpha): measures the API-visible state of a repository through
// ordinary read requests and, for directory stores, by scanning the directory. It only compares
// bytes, hashes and listings; every judgement is left to the specification.

import (
	"encoding/json"
	"fmt"
	"net/url"
	"os"
	"path/filepath"
	"sort"
	"strings"

	"github.com/opencontainers/go-digest"

	"github.com/olareg/olareg/types"
)

type ObsMan struct {
	D  string `json:"d"`
	MT string `json:"mt"`
}

type ObsTag struct {
	T string `json:"t"`
	D string `json:"d"`
}

type ObsRef struct {
	S     string   `json:"s"`     // subject digest symbol
	F     string   `json:"f"`     // filter ("" none)
	St    int      `json:"st"`    // status of the first page
	List  []string `json:"list"`  // digests listed, in order, over the whole Link chain
	Bad   []string `json:"bad"`   // listed descriptors whose fields are not the expected ones
	FA    bool     `json:"fa"`    // OCI-Filters-Applied announced on every page
	Pages []int    `json:"pages"` // byte length of every page
	CT    bool     `json:"ct"`    // every page is an OCI index with the index content type
	Warm  bool     `json:"warm"`  // second (cache warm) query gave the same answer
	Loop  bool     `json:"loop"`  // the Link chain did not terminate
}

type ObsSess struct {
	H   string `json:"h"`
	St  int    `json:"st"`
	Off int    `json:"off"`
}

type ObsDisk struct {
	Exists   bool     `json:"exists"`   // repository directory exists
	Layout   string   `json:"layout"`   // ok | missing | bad
	Index    string   `json:"index"`    // ok | missing | bad
	Entries  []ObsEnt `json:"entries"`  // index.json entries
	Files    []string `json:"files"`    // blob files as digest symbols ("?" unknown content, still hashing to its name)
	BadFiles []string `json:"badfiles"` // files under blobs/ whose content does not hash to their name, or misplaced
	Uploads  int      `json:"uploads"`  // files under _uploads
	Stray    []string `json:"stray"`    // anything else in the repository directory
	Conv     bool     `json:"conv"`     // index carries the referrers-converted annotation
}

type ObsEnt struct {
	D    string `json:"d"` // digest symbol ("?" unknown)
	T    string `json:"t"` // model tag ("" none, "?.." unknown)
	S    string `json:"s"` // referrers subject symbol ("" none)
	MT   string `json:"mt"`
	Size bool   `json:"size"` // recorded size equals the blob file size
	File bool   `json:"file"` // blob file exists
}

type RepoObs struct {
	Blobs    []string  `json:"blobs"`
	BlobsBad []string  `json:"blobsbad"`
	Mans     []ObsMan  `json:"mans"`
	MansBad  []string  `json:"mansbad"`
	Tags     []ObsTag  `json:"tags"`
	TagsBad  []string  `json:"tagsbad"`
	TagList  []string  `json:"taglist"`
	TagSt    int       `json:"tagst"`
	Refs     []ObsRef  `json:"refs"`
	Sess     []ObsSess `json:"sess"`
	NSess    int       `json:"nsess"`
	// descriptors served through this repository, for the cache / page parameters another repository's Link header hands
	// out, that this repository's own referrers list of that subject does not contain ("<other repo>><subject>:<digest>")
	RefsForeign []string `json:"refsforeign,omitempty"`
	Errs        []string `json:"errs"` // 5xx / panics / hangs met while observing
	Disk     *ObsDisk  `json:"disk,omitempty"`
}

// ObsOpts selects what is measured.
type ObsOpts struct {
	Refs    bool
	Filters bool
	Disk    bool
	Sess    bool
	Ranges  bool
}

func (e *Exec) note(o *RepoObs, what string, r Resp) {
	if r.Panic || r.Hung || r.Status >= 500 || r.Status <= 0 {
		o.Errs = append(o.Errs, fmt.Sprintf("%s:%d:%v:%v", what, r.Status, r.Panic, r.Hung))
	}
}

// Observe measures one repository.
func (e *Exec) Observe(repoModel string, oo ObsOpts) RepoObs {
	o := RepoObs{Blobs: []string{}, BlobsBad: []string{}, Mans: []ObsMan{}, MansBad: []string{}, Tags: []ObsTag{},
		TagsBad: []string{}, TagList: []string{}, Refs: []ObsRef{}, Sess: []ObsSess{}, Errs: []string{}}
	saveActor := e.Actor
	e.Actor = ""
	defer func() { e.Actor = saveActor }()
	for _, s := range e.Cat.ProbeDigs() {
		_, cid := splitSym(s)
		// blob view
		h := e.Do(Op{Op: "BlobGet", Repo: repoModel, Dig: s, Method: "HEAD"})
		e.note(&o, "blobhead "+s, h)
		if h.Status == 200 {
			g := e.Do(Op{Op: "BlobGet", Repo: repoModel, Dig: s})
			e.note(&o, "blobget "+s, g)
			ok := g.Status == 200 && g.BodyOK && h.BodyOK && g.Dig == s && h.Dig == s
			if ok && oo.Ranges && len(e.Cat.C[cid].Bytes) > 0 { // ranges over empty content are not pinned by any property
				for _, rc := range []string{"pre", "suf", "mid"} {
					rg := e.Do(Op{Op: "BlobGet", Repo: repoModel, Dig: s, Range: rc})
					_, _, _, sat := rangeFor(rc, len(e.Cat.C[cid].Bytes))
					if sat && !(rg.Status == 206 && rg.BodyOK) {
						ok = false
					}
					if !sat && rg.Status != 416 && !(rg.Status == 200 && rg.BodyOK) {
						ok = false
					}
				}
			}
			if ok {
				o.Blobs = append(o.Blobs, s)
			} else {
				o.BlobsBad = append(o.BlobsBad, s)
			}
		} else if h.Status != 404 {
			o.BlobsBad = append(o.BlobsBad, s)
		}
		// manifest view
		if e.Cat.C[cid].Def.Kind == "blob" {
			continue
		}
		mh := e.Do(Op{Op: "ManGet", Repo: repoModel, Ref: Ref{K: "dig", V: s}, Method: "HEAD", Accept: "all"})
		e.note(&o, "manhead "+s, mh)
		if mh.Status == 200 {
			mg := e.Do(Op{Op: "ManGet", Repo: repoModel, Ref: Ref{K: "dig", V: s}, Accept: "commarev"})
			e.note(&o, "manget "+s, mg)
			if mg.Status == 200 && mg.BodyOK && mh.BodyOK && mg.Dig == s && mh.Dig == s && mg.Ctype == mh.Ctype {
				o.Mans = append(o.Mans, ObsMan{D: s, MT: mg.Ctype})
			} else {
				o.MansBad = append(o.MansBad, s)
			}
		} else if mh.Status != 404 {
			o.MansBad = append(o.MansBad, s)
		}
	}
	// tags
	for _, t := range e.Cat.Tags {
		th := e.Do(Op{Op: "ManGet", Repo: repoModel, Ref: Ref{K: "tag", V: t}, Method: "HEAD", Accept: "all"})
		e.note(&o, "taghead "+t, th)
		if th.Status == 200 {
			tg := e.Do(Op{Op: "ManGet", Repo: repoModel, Ref: Ref{K: "tag", V: t}, Accept: "all"})
			e.note(&o, "tagget "+t, tg)
			if tg.Status == 200 && tg.BodyOK && th.BodyOK && tg.Dig == th.Dig && tg.Dig != "" && tg.Dig != "?" {
				o.Tags = append(o.Tags, ObsTag{T: t, D: tg.Dig})
			} else {
				o.TagsBad = append(o.TagsBad, t)
			}
		} else if th.Status != 404 {
			o.TagsBad = append(o.TagsBad, t)
		}
	}
	tl := e.Do(Op{Op: "TagsList", Repo: repoModel})
	e.note(&o, "taglist", tl)
	o.TagSt = tl.Status
	if tl.Status == 200 {
		o.TagList = tl.List
		if !tl.ListOK {
			o.TagsBad = append(o.TagsBad, "list")
		}
	}
	if oo.Refs {
		filters := []string{""}
		if oo.Filters {
			filters = append(filters, e.Cat.ATs...)
			filters = append(filters, "nomatch")
		}
		for _, s := range e.Cat.ProbeDigs() {
			_, cid := splitSym(s)
			// every content that some catalogue manifest names as subject, plus every manifest
			if e.Cat.C[cid].Def.Kind == "blob" && cid != "nx" {
				continue
			}
			for _, f := range filters {
				r1 := e.Referrers(repoModel, s, f, &o)
				r2 := e.Referrers(repoModel, s, f, &o)
				r1.Warm = fmt.Sprint(r1.List, r1.Bad, r1.FA, r1.St, r1.Pages) == fmt.Sprint(r2.List, r2.Bad, r2.FA, r2.St, r2.Pages)
				o.Refs = append(o.Refs, r1)
			}
		}
	}
	if oo.Refs && e.Srv.Cfg.RefLimit > 0 && len(e.Cat.Repos) > 1 {
		own := map[string]map[string]bool{}
		for _, r := range o.Refs {
			if r.F == "" {
				own[r.S] = map[string]bool{}
				for _, d := range r.List {
					own[r.S][d] = true
				}
			}
		}
		for _, other := range e.Cat.Repos {
			if other == repoModel {
				continue
			}
			for s := range own {
				first := e.Srv.Do("GET", "/v2/"+e.repoReal(other)+"/referrers/"+e.digReal(s), nil, nil, true, "")
				pr := e.project(first)
				if first.Status != 200 || !pr.Link || pr.LinkURL == "" {
					continue
				}
				// the same cache / page parameters, asked of this repository
				t := strings.Replace(pr.LinkURL, "/v2/"+e.repoReal(other)+"/", "/v2/"+e.repoReal(repoModel)+"/", 1)
				hr := e.Srv.Do("GET", t, nil, nil, true, "")
				var idx types.Index
				if hr.Status == 200 && json.Unmarshal(hr.Body, &idx) == nil {
					for _, d := range idx.Manifests {
						if ds := e.Cat.Sym(d.Digest.String()); !own[s][ds] {
							o.RefsForeign = append(o.RefsForeign, other+">"+s+":"+ds)
						}
					}
				}
			}
		}
	}
	if oo.Sess {
		handles := make([]string, 0, len(e.Sess))
		for h := range e.Sess {
			handles = append(handles, h)
		}
		sort.Strings(handles)
		real := e.repoReal(repoModel)
		for _, h := range handles {
			if e.Sess[h].repoReal != real {
				continue
			}
			o.Sess = append(o.Sess, ObsSess{H: h})
		}
		ids, err := e.Srv.S.VerifSessions(real)
		if err == nil {
			o.NSess = len(ids)
			live := map[string]bool{}
			for _, id := range ids {
				live[id] = true
			}
			for i := range o.Sess {
				// non perturbing view: membership through the hook; the offset through GET is a modelled operation (UpGet)
				if live[e.Sess[o.Sess[i].H].id] {
					o.Sess[i].St = 204
				} else {
					o.Sess[i].St = 404
				}
				o.Sess[i].Off = -1
			}
		} else {
			o.NSess = -1
		}
	}
	if oo.Disk && e.Srv.Root != "" {
		d := e.ScanDisk(e.repoReal(repoModel))
		o.Disk = &d
	}
	return o
}

// Referrers queries the referrers API for one subject, following the Link chain.
func (e *Exec) Referrers(repoModel, subject, filter string, o *RepoObs) ObsRef {
	r := ObsRef{S: subject, F: filter, List: []string{}, Bad: []string{}, Pages: []int{}, CT: true, FA: true}
	t := "/v2/" + e.repoReal(repoModel) + "/referrers/" + e.digReal(subject)
	if filter != "" {
		f := filter
		if l, ok := atLong[f]; ok {
			f = l
		}
		t += "?artifactType=" + url.QueryEscape(f)
	}
	for page := 0; ; page++ {
		if page > 64 {
			r.Loop = true
			break
		}
		hr := e.Srv.Do("GET", t, nil, nil, true, "")
		pr := e.project(hr)
		if o != nil {
			e.note(o, "referrers "+subject, pr)
		}
		if page == 0 {
			r.St = hr.Status
		}
		if hr.Status != 200 {
			if page > 0 {
				r.CT = false
			}
			break
		}
		r.Pages = append(r.Pages, len(hr.Body))
		if !pr.FA {
			r.FA = false
		}
		var idx types.Index
		if err := json.Unmarshal(hr.Body, &idx); err != nil || idx.SchemaVersion != 2 || idx.MediaType != types.MediaTypeOCI1ManifestList ||
			hr.Header.Get("Content-Type") != types.MediaTypeOCI1ManifestList {
			r.CT = false
		}
		for _, d := range idx.Manifests {
			s := e.Cat.Sym(d.Digest.String())
			r.List = append(r.List, s)
			if !e.descOK(d) {
				r.Bad = append(r.Bad, s)
			}
		}
		if !pr.Link || pr.LinkURL == "" {
			break
		}
		t = pr.LinkURL
	}
	return r
}

// descOK checks a referrers descriptor field by field against the catalogue.
func (e *Exec) descOK(d types.Descriptor) bool {
	s := e.Cat.Sym(d.Digest.String())
	if s == "?" || s == "" {
		return false
	}
	_, cid := splitSym(s)
	ct := e.Cat.C[cid]
	if ct.Def.Kind == "blob" {
		return false
	}
	if d.Size != int64(len(ct.Bytes)) || d.MediaType != mtLong[ct.Def.MT] {
		return false
	}
	want := e.Cat.EffAT(cid)
	if l, ok := atLong[want]; ok {
		want = l
	} else if strings.HasPrefix(want, "cfg:") {
		want = want[4:]
	}
	if d.ArtifactType != want {
		return false
	}
	wa := e.Cat.Annotations(cid)
	if len(wa) != len(d.Annotations) {
		return false
	}
	for k, v := range wa {
		if d.Annotations[k] != v {
			return false
		}
	}
	return true
}

// ScanDisk measures the directory of one repository.
func (e *Exec) ScanDisk(repoReal string) ObsDisk {
	d := ObsDisk{Entries: []ObsEnt{}, Files: []string{}, BadFiles: []string{}, Stray: []string{}}
	dir := filepath.Join(e.Srv.Root, repoReal)
	fi, err := os.Stat(dir)
	if err != nil || !fi.IsDir() {
		d.Layout, d.Index = "missing", "missing"
		return d
	}
	d.Exists = true
	// other repositories may be nested below this one: sub directories that are not part of the layout are ignored
	// when they are (prefixes of) other repository names
	nested := map[string]bool{}
	for _, rr := range e.Cat.RepoReal {
		if strings.HasPrefix(rr, repoReal+"/") {
			nested[strings.Split(rr[len(repoReal)+1:], "/")[0]] = true
		}
	}
	ents, _ := os.ReadDir(dir)
	for _, en := range ents {
		switch en.Name() {
		case "oci-layout", "index.json", "blobs", "_uploads":
		default:
			if !(en.IsDir() && nested[en.Name()]) {
				d.Stray = append(d.Stray, en.Name())
			}
		}
	}
	if b, err := os.ReadFile(filepath.Join(dir, "oci-layout")); err != nil {
		d.Layout = "missing"
	} else {
		var l types.Layout
		if json.Unmarshal(b, &l) != nil || l.Version != "1.0.0" {
			d.Layout = "bad"
		} else {
			d.Layout = "ok"
		}
	}
	sizes := map[string]int64{}
	if algs, err := os.ReadDir(filepath.Join(dir, "blobs")); err == nil {
		for _, a := range algs {
			if !a.IsDir() {
				d.BadFiles = append(d.BadFiles, "blobs/"+a.Name())
				continue
			}
			files, _ := os.ReadDir(filepath.Join(dir, "blobs", a.Name()))
			for _, f := range files {
				name := a.Name() + ":" + f.Name()
				b, err := os.ReadFile(filepath.Join(dir, "blobs", a.Name(), f.Name()))
				dg, perr := digest.Parse(name)
				if err != nil || perr != nil || dg.Algorithm().FromBytes(b) != dg {
					d.BadFiles = append(d.BadFiles, name)
					continue
				}
				sizes[name] = int64(len(b))
				d.Files = append(d.Files, e.Cat.Sym(name))
			}
		}
	}
	sort.Strings(d.Files)
	if ups, err := os.ReadDir(filepath.Join(dir, "_uploads")); err == nil {
		d.Uploads = len(ups)
	}
	b, err := os.ReadFile(filepath.Join(dir, "index.json"))
	if err != nil {
		d.Index = "missing"
		return d
	}
	var idx types.Index
	if json.Unmarshal(b, &idx) != nil || idx.SchemaVersion != 2 {
		d.Index = "bad"
		return d
	}
	d.Index = "ok"
	d.Conv = idx.Annotations != nil && idx.Annotations[types.AnnotReferrerConvert] == "true"
	for _, m := range idx.Manifests {
		en := ObsEnt{D: e.Cat.Sym(m.Digest.String()), MT: m.MediaType}
		if s, ok := mtShort[m.MediaType]; ok {
			en.MT = s
		}
		if m.Annotations != nil {
			if t := m.Annotations[types.AnnotRefName]; t != "" {
				if mt, ok := e.Cat.TagModel[t]; ok {
					en.T = mt
				} else {
					en.T = "?" + t
				}
			}
			if s := m.Annotations[types.AnnotReferrerSubject]; s != "" {
				en.S = e.Cat.Sym(s)
			}
		}
		sz, ok := sizes[m.Digest.String()]
		en.File = ok
		en.Size = ok && sz == m.Size
		d.Entries = append(d.Entries, en)
	}
	return d
}
