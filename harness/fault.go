//go:build vfs

package main

// `vharness fault` (built with the vfs overlay): histories on the directory store during which exactly one mutating file
// system call of the store fails (EIO, once).  The request that met the fault may answer anything; it is repeated once
// (a client retry), the history goes on and ends with a restart.  TraceRegistry binds the state after the faulted
// request to the observation (FaultBind), judges it with fault.safe and validates everything else strictly.

import (
	"bufio"
	"encoding/json"
	"flag"
	"fmt"
	"math/rand"
	"os"
	"path/filepath"
	"sort"
	"strings"
	"syscall"

	"github.com/olareg/olareg"
)

func init() { extraCmds["fault"] = cmdFault }

func cmdFault(args []string) {
	fs := flag.NewFlagSet("fault", flag.ExitOnError)
	progs := fs.String("programs", "", "ndjson file of programs")
	out := fs.String("o", "trace.ndjson", "trace output")
	seed := fs.Int64("seed", 1, "seed")
	per := fs.Int("perprog", 6, "fault points per program (seeded sample of its file system calls)")
	at := fs.Int("at", 0, "replay: only this file system call fails")
	_ = fs.Parse(args)
	in, err := os.Open(*progs)
	if err != nil {
		fatal(err)
	}
	defer in.Close()
	of, err := os.Create(*out)
	if err != nil {
		fatal(err)
	}
	w := bufio.NewWriterSize(of, 1<<20)
	defer func() { w.Flush(); of.Close() }()
	enc := json.NewEncoder(w)
	sc := bufio.NewScanner(in)
	sc.Buffer(make([]byte, 1<<20), 1<<26)
	nprog, events, runs, calls := 0, 0, 0, 0
	kinds := map[string]int{}
	for sc.Scan() {
		line := strings.TrimSpace(sc.Text())
		if line == "" {
			continue
		}
		var p Program
		if err := json.Unmarshal([]byte(line), &p); err != nil {
			fatal(err)
		}
		nprog++
		_, n, _, err := faultProgram(&p, *seed, 0, nil)
		if err != nil {
			fatal(err)
		}
		calls += n
		rng := rand.New(rand.NewSource(*seed*7919 + int64(nprog)))
		pts := rng.Perm(n)
		if len(pts) > *per {
			pts = pts[:*per]
		}
		sort.Ints(pts)
		if *at > 0 {
			pts = []int{*at - 1}
		}
		for _, k := range pts {
			ev, _, kind, err := faultProgram(&p, *seed, k+1, enc)
			if err != nil {
				fatal(err)
			}
			events += ev
			runs++
			kinds[kind]++
		}
	}
	kb, _ := json.Marshal(kinds)
	fmt.Fprintf(os.Stderr, "vharness: %d programs, %d fs calls, %d fault runs, %d events, kinds %s\n", nprog, calls, runs, events, kb)
}

// faultProgram runs the program on a fresh directory store; the k-th mutating file system call made while a request is
// executed fails (k = 0: none, the calls are only counted). Returns events, calls seen, "<fsop> during <request>".
func faultProgram(p *Program, seed int64, k int, enc *json.Encoder) (int, int, string, error) {
	pseed := seed*1000003 + p.Seed
	cat, err := BuildCatalogue(CatOpts{Seed: pseed, Contents: p.Contents, Algs: p.Algs, Repos: p.Repos, NTags: p.NTags, TagStyle: p.TagStyle})
	if err != nil {
		return 0, 0, "", err
	}
	cfg := DefaultCfg("dir")
	if p.Cfg != nil {
		cfg = *p.Cfg
		cfg.Store = "dir"
	}
	sandbox := mkTemp("vh-fault-")
	defer os.RemoveAll(sandbox)
	root := filepath.Join(sandbox, "root")
	_ = os.MkdirAll(root, 0o755)
	srv := NewSrv(cfg, root)
	defer func() { olareg.VerifSetVfsFault(nil); _ = srv.Close() }()
	ex := NewExec(cat, srv, pseed)
	oo := ObsOpts{Refs: true, Disk: true, Sess: true}
	emit := func(v map[string]any) error {
		if enc == nil {
			return nil
		}
		return enc.Encode(v)
	}
	hdr := cat.Header()
	cuts := map[string]any{}
	for id, c := range ex.Cuts {
		n := len(cat.C[id].Bytes)
		cuts[id] = map[string]int{"p1": c[0], "p2": c[1] - c[0], "p3": n - c[1], "all": n, "e": 0}
	}
	hdr["cuts"] = cuts
	if err := emit(map[string]any{"k": "reset", "trace": fmt.Sprintf("%s-f%d@dir", p.ID, k), "store": "dir", "cfg": cfg, "cat": hdr, "rootsum": "", "outsum": "", "pre": ""}); err != nil {
		return 0, 0, "", err
	}
	armed, nfs := false, 0
	var fired map[string]any
	olareg.VerifSetVfsFault(func(op string, paths []string) error {
		if !armed || op == "Remove" {
			// (a removal that fails leaves what it was to remove: nothing can be asked of the registry about that)
			return nil
		}
		nfs++
		if nfs != k {
			return nil
		}
		rel, _ := filepath.Rel(root, paths[0])
		fired = map[string]any{"n": k, "fsop": op, "path": rel}
		return &os.PathError{Op: strings.ToLower(op), Path: paths[0], Err: syscall.EIO}
	})
	events := 0
	kind := ""
	// mark: "" (strict event), "retry" (the repeated request) or "restart" (the restart right after it; acked: the repeated
	// request was acknowledged with a 2xx status)
	step := func(prim Op, mayFault bool, mark string, acked bool) (Resp, error) {
		armed = mayFault && prim.Op != "Restart" // (a restart collects: its outcome is judged as a collection, not as a faulted request)
		r := ex.Do(prim)
		armed = false
		o := map[string]RepoObs{}
		for _, rm := range cat.Repos {
			o[rm] = ex.Observe(rm, oo)
		}
		events++
		ev := map[string]any{"k": "op", "i": events, "op": prim, "resp": r, "obs": o, "rootsum": "", "outsum": ""}
		if fired != nil && kind == "" {
			ev["fault"] = map[string]any{"n": fired["n"], "fsop": fired["fsop"], "path": fired["path"], "phase": "fault", "acked": false}
			kind = fmt.Sprintf("%v during %s", fired["fsop"], prim.Op)
		} else if mark != "" {
			ev["fault"] = map[string]any{"n": k, "fsop": "", "path": "", "phase": mark, "acked": acked}
		}
		return r, emit(ev)
	}
	for _, op := range p.Ops {
		for _, primf := range ex.Expand(op) {
			prim := primf()
			was := kind
			if _, err := step(prim, true, "", false); err != nil {
				return events, nfs, kind, err
			}
			if was == "" && kind != "" {
				// the client repeats the request that met the fault, then the server is restarted: what the repeated request
				// acknowledged is in effect afterwards, nothing that was held before the fault is lost
				r, err := step(prim, false, "retry", false)
				if err != nil {
					return events, nfs, kind, err
				}
				acked := r.Status >= 200 && r.Status < 300
				switch prim.Op {
				case "ManPut", "ManDel", "BlobDel":
				case "UpPut", "UpPost":
					acked = acked && r.Status == 201
				default:
					acked = false
				}
				if _, err := step(Op{Op: "Restart"}, false, "restart", acked); err != nil {
					return events, nfs, kind, err
				}
			}
		}
	}
	if k > 0 {
		if _, err := step(Op{Op: "Restart"}, false, "", false); err != nil {
			return events, nfs, kind, err
		}
	}
	return events, nfs, kind, nil
}
