package main

import (
	"bytes"
	"context"
	"fmt"
	"io"
	"net/http"
	"net/http/httptest"
	"os"
	"runtime/debug"
	"time"

	"github.com/olareg/olareg"
	"github.com/olareg/olareg/config"
)

// SrvCfg is the abstract server configuration (constant Cfg of the specification).
type SrvCfg struct {
	Store       string `json:"store"` // mem | dir | memdir | dirro
	Push        bool   `json:"push"`
	Delete      bool   `json:"delete"`
	BlobDelete  bool   `json:"blobDelete"`
	Referrers   bool   `json:"referrers"`
	ReadOnly    bool   `json:"readOnly"`
	Untagged    bool   `json:"untagged"`
	Dangling    bool   `json:"dangling"`
	WithSubj    bool   `json:"withSubj"`
	EmptyRepo   bool   `json:"emptyRepo"`
	Grace       bool   `json:"grace"`     // grace period enabled (1h) or disabled (-1)
	UploadMax   int    `json:"uploadMax"` // 0: default
	ManLimit    int64  `json:"manLimit"`  // 0: default
	RefLimit    int64  `json:"refLimit"`  // 0: default
	RateLimit   int    `json:"rateLimit"`
	RefLimitCls string `json:"refLimitCls"`        // class name of the referrers limit for the model: "unl" | "k1" | "k2"
	GraceMs     int    `json:"graceMs,omitempty"`  // > 0: grace period in milliseconds (C12: session expiry, repository cache pruning)
	GCFreqMs    int    `json:"gcFreqMs,omitempty"` // > 0: background collection every so many milliseconds (C12)
}

// DefaultCfg is the configuration most histories run under. The collection that Close performs on a directory store
// is a no-op under it (nothing untagged, dangling or subject-less is collected, everything is younger than the grace
// period); collection policies are exercised by the GC scenarios (C05, C06).
func DefaultCfg(store string) SrvCfg {
	return SrvCfg{Store: store, Push: true, Delete: true, BlobDelete: true, Referrers: true,
		Untagged: false, Dangling: false, WithSubj: false, EmptyRepo: true, Grace: true, ManLimit: 3000, RefLimitCls: "unl"}
}

// Srv wraps a live olareg server on a directory (if any).
type Srv struct {
	Cfg  SrvCfg
	Root string // root directory ("" for pure mem)
	S    *olareg.Server
	conf config.Config
}

func bp(b bool) *bool { return &b }

func (c SrvCfg) toConfig(root string) config.Config {
	conf := config.Config{}
	switch c.Store {
	case "mem":
		conf.Storage.StoreType = config.StoreMem
	case "memdir":
		conf.Storage.StoreType = config.StoreMem
		conf.Storage.RootDir = root
	case "dir":
		conf.Storage.StoreType = config.StoreDir
		conf.Storage.RootDir = root
	case "dirro":
		conf.Storage.StoreType = config.StoreDir
		conf.Storage.RootDir = root
		conf.Storage.ReadOnly = bp(true)
	}
	if c.ReadOnly {
		conf.Storage.ReadOnly = bp(true)
	}
	conf.API.PushEnabled = bp(c.Push)
	conf.API.DeleteEnabled = bp(c.Delete)
	conf.API.Blob.DeleteEnabled = bp(c.BlobDelete)
	conf.API.Referrer.Enabled = bp(c.Referrers)
	conf.API.Manifest.Limit = c.ManLimit
	conf.API.Referrer.Limit = c.RefLimit
	conf.API.RateLimit = c.RateLimit
	conf.Storage.GC.Frequency = -1 // collections happen only when the harness asks for them
	if c.Grace {
		conf.Storage.GC.GracePeriod = time.Hour
	} else {
		conf.Storage.GC.GracePeriod = -1
	}
	if c.GraceMs > 0 {
		conf.Storage.GC.GracePeriod = time.Duration(c.GraceMs) * time.Millisecond
	}
	if c.GCFreqMs > 0 {
		conf.Storage.GC.Frequency = time.Duration(c.GCFreqMs) * time.Millisecond
	}
	conf.Storage.GC.RepoUploadMax = c.UploadMax
	conf.Storage.GC.Untagged = bp(c.Untagged)
	conf.Storage.GC.ReferrersDangling = bp(c.Dangling)
	conf.Storage.GC.ReferrersWithSubj = bp(c.WithSubj)
	conf.Storage.GC.EmptyRepo = bp(c.EmptyRepo)
	return conf
}

// NewSrv starts a server; root is used as is (may hold pre-existing content).
func NewSrv(c SrvCfg, root string) *Srv {
	s := &Srv{Cfg: c, Root: root}
	s.conf = c.toConfig(root)
	s.S = olareg.New(s.conf)
	return s
}

// Restart closes the server and opens a new one on the same configuration and directory.
func (s *Srv) Restart() error {
	err := s.S.Close()
	s.S = olareg.New(s.conf)
	return err
}

func (s *Srv) Close() error { return s.S.Close() }

// HTTPResp is what the harness keeps of a response.
type HTTPResp struct {
	Status int
	Header http.Header
	Body   []byte
	Panic  string
	Hung   bool
}

// Do executes one request through ServeHTTP under a watchdog; a panic or a hang is a result.
func (s *Srv) Do(method, target string, hdr map[string]string, body []byte, lenKnown bool, actor string) HTTPResp {
	var rd io.Reader
	if body != nil {
		rd = bytes.NewReader(body)
	}
	req, err := http.NewRequest(method, target, rd)
	if err != nil {
		return HTTPResp{Status: -1, Panic: "bad request: " + err.Error()}
	}
	if body != nil && !lenKnown {
		req.ContentLength = -1
	}
	if req.Body == nil {
		req.Body = http.NoBody // what a server side request always has
	}
	for k, v := range hdr {
		req.Header.Set(k, v)
	}
	req.RemoteAddr = "192.0.2.1:1234"
	if actor != "" {
		req = req.WithContext(olareg.VerifWithActor(context.Background(), actor))
	}
	rec := httptest.NewRecorder()
	done := make(chan HTTPResp, 1)
	go func() {
		defer func() {
			if r := recover(); r != nil {
				done <- HTTPResp{Status: 0, Panic: fmt.Sprintf("%v\n%s", r, debug.Stack())}
			}
		}()
		if goroutineStart != nil {
			goroutineStart(actor, method+" "+target)
			defer goroutineEnd()
		}
		s.S.ServeHTTP(rec, req)
		res := rec.Result()
		b, _ := io.ReadAll(res.Body)
		done <- HTTPResp{Status: res.StatusCode, Header: res.Header, Body: b}
	}()
	select {
	case r := <-done:
		return r
	case <-time.After(watchdog):
		return HTTPResp{Status: 0, Hung: true}
	}
}

var watchdog = 20 * time.Second

// set by the lock recorder (C12): called at the start / end of the goroutine that serves one request
var goroutineStart func(actor, what string)
var goroutineEnd func()

func mkTemp(prefix string) string {
	d, err := os.MkdirTemp("", prefix)
	if err != nil {
		panic(err)
	}
	return d
}
