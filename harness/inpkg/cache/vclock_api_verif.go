package cache

// Injected by /verif together with vclock_verif.go when the whole server runs on the virtual clock (C08: expiry and
// eviction of upload sessions at points the harness chooses). Not part of olareg.

import "time"

func VerifClockAdvance(d time.Duration) { vAdvance(d) }
func VerifClockFireDue() bool           { return vFireDue() }
func VerifClockRunQueued() bool         { return vRunOne() }
func VerifClockPending() int            { return vPending() }
func VerifClockReset()                  { vReset() }
