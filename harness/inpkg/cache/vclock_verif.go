package cache

// Injected by /verif (go test -overlay) together with a rewritten cache.go in which time.Now, time.AfterFunc,
// *time.Timer and `go c.pruneCount()` are replaced by the virtual clock below. Not part of olareg.

import (
	"sync"
	"time"
)

type vClock struct {
	mu     sync.Mutex
	now    time.Time
	timers []*vTimer
	queue  []func()
}

var vc = &vClock{now: time.Unix(1700000000, 0)}

type vTimer struct {
	at     time.Time
	f      func()
	active bool
}

func vReset() {
	vc.mu.Lock()
	defer vc.mu.Unlock()
	vc.now = time.Unix(1700000000, 0)
	vc.timers = nil
	vc.queue = nil
}

func vNow() time.Time {
	vc.mu.Lock()
	defer vc.mu.Unlock()
	return vc.now
}

func vAfterFunc(d time.Duration, f func()) *vTimer {
	vc.mu.Lock()
	defer vc.mu.Unlock()
	t := &vTimer{at: vc.now.Add(d), f: f, active: true}
	vc.timers = append(vc.timers, t)
	return t
}

func (t *vTimer) Stop() bool {
	vc.mu.Lock()
	defer vc.mu.Unlock()
	was := t.active
	t.active = false
	return was
}

func (t *vTimer) Reset(d time.Duration) bool {
	vc.mu.Lock()
	defer vc.mu.Unlock()
	was := t.active
	t.at = vc.now.Add(d)
	t.active = true
	return was
}

// vGo stands for the go statement: the function is queued and the driver decides when it runs.
func vGo(f func()) {
	vc.mu.Lock()
	defer vc.mu.Unlock()
	vc.queue = append(vc.queue, f)
}

func vAdvance(d time.Duration) {
	vc.mu.Lock()
	defer vc.mu.Unlock()
	vc.now = vc.now.Add(d)
}

// vFireDue fires one due timer (as the runtime would, in its own call); false when none is due.
func vFireDue() bool {
	vc.mu.Lock()
	var due *vTimer
	for _, t := range vc.timers {
		if t.active && !t.at.After(vc.now) {
			due = t
			break
		}
	}
	if due != nil {
		due.active = false
	}
	vc.mu.Unlock()
	if due == nil {
		return false
	}
	due.f()
	return true
}

func vPending() int {
	vc.mu.Lock()
	defer vc.mu.Unlock()
	return len(vc.queue)
}

// vRunOne runs the oldest queued goroutine body; false when the queue is empty.
func vRunOne() bool {
	vc.mu.Lock()
	if len(vc.queue) == 0 {
		vc.mu.Unlock()
		return false
	}
	f := vc.queue[0]
	vc.queue = vc.queue[1:]
	vc.mu.Unlock()
	f()
	return true
}
