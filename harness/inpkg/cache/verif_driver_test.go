package cache

// In-package driver injected by /verif (go test -overlay): replays behaviours of spec/Cache.tla on the real cache
// under the virtual clock and records, after every operation, what the specification needs to judge C20.

import (
	"bufio"
	"encoding/json"
	"fmt"
	"os"
	"sort"
	"testing"
	"time"
)

type vdOp struct {
	Op  string `json:"op"`
	Key string `json:"key"`
}

type vdProg struct {
	Age   int      `json:"age"`
	Count int      `json:"count"`
	Step  int      `json:"step"`
	Fail  []string `json:"fail"`
	Ops   []vdOp   `json:"ops"`
}

type vdCall struct {
	K  string `json:"k"`
	OK bool   `json:"ok"`
}

func TestVerifDriver(t *testing.T) {
	in := os.Getenv("VERIF_CACHE_PROGS")
	out := os.Getenv("VERIF_CACHE_TRACE")
	if in == "" || out == "" {
		t.Skip("not driven by /verif")
	}
	fi, err := os.Open(in)
	if err != nil {
		t.Fatal(err)
	}
	defer fi.Close()
	fo, err := os.Create(out)
	if err != nil {
		t.Fatal(err)
	}
	w := bufio.NewWriterSize(fo, 1<<20)
	defer func() { w.Flush(); fo.Close() }()
	enc := json.NewEncoder(w)
	sc := bufio.NewScanner(fi)
	sc.Buffer(make([]byte, 1<<20), 1<<26)
	tick := 100 * time.Millisecond
	n, events := 0, 0
	for sc.Scan() {
		if len(sc.Bytes()) == 0 {
			continue
		}
		var p vdProg
		if err := json.Unmarshal(sc.Bytes(), &p); err != nil {
			t.Fatal(err)
		}
		n++
		vReset()
		fail := map[string]bool{}
		for _, k := range p.Fail {
			fail[k] = true
		}
		calls := []vdCall{}
		var c *Cache[string, int]
		probe, reset := false, ""
		var probeDone chan struct{}
		c = New[string, int](Opts[string, int]{
			Age:   time.Duration(p.Age) * tick,
			Count: p.Count,
			PruneFn: func(k string, _ int) error {
				if probe && reset == "" {
					// another goroutine sets this key while its cleanup runs (real time: it gets a few milliseconds)
					reset = k
					probeDone = make(chan struct{})
					go func() { c.Set(k, 2); close(probeDone) }()
					time.Sleep(4 * time.Millisecond)
				}
				if fail[k] {
					calls = append(calls, vdCall{K: k, OK: false})
					return fmt.Errorf("cleanup of %s fails", k)
				}
				calls = append(calls, vdCall{K: k, OK: true})
				return nil
			},
		})
		if p.Fail == nil {
			p.Fail = []string{}
		}
		trace := fmt.Sprintf("cache-%d", n)
		_ = enc.Encode(map[string]any{"k": "reset", "trace": trace, "cfg": map[string]any{"age": p.Age, "count": p.Count, "step": p.Step, "fail": p.Fail}})
		for _, op := range p.Ops {
			calls = []vdCall{}
			fired := true
			switch op.Op {
			case "Set":
				c.Set(op.Key, 1)
			case "Get":
				_, _ = c.Get(op.Key)
			case "Delete":
				_ = c.Delete(op.Key)
			case "DeleteAll":
				_ = c.DeleteAll()
			case "Tick":
				vAdvance(time.Duration(p.Step) * tick)
			case "TimerFire":
				probe, reset, probeDone = events%2 == 0, "", nil
				fired = vFireDue()
				probe = false
				if probeDone != nil {
					<-probeDone
				}
			case "PruneCount":
				fired = vRunOne()
			case "End":
				continue
			}
			members, _ := c.List()
			sort.Strings(members)
			c.mu.Lock()
			armed := c.timer != nil && c.timer.active
			c.mu.Unlock()
			events++
			ev := map[string]any{"k": "op", "trace": trace, "i": events, "op": op, "members": members, "calls": calls,
				"timer": armed, "pending": vPending(), "fired": fired}
			if op.Op == "TimerFire" && reset != "" {
				ev["reset"] = reset
			}
			reset = ""
			_ = enc.Encode(ev)
		}
	}
	t.Logf("verif cache driver: %d programs, %d events", n, events)
}
