package store

// Injected by /verif (go build -overlay) together with copies of dir.go, mem.go and store.go in which the mutating
// os calls are replaced by the wrappers below: the hook sees every file system mutation right before it happens
// (the state a process crash at that point leaves behind). Not part of olareg.

import "os"

// VerifVfsHook is called before every mutating file system call of the store.
var VerifVfsHook func(op string, paths []string, data []byte)

func vfsHook(op string, data []byte, paths ...string) {
	if h := VerifVfsHook; h != nil {
		h(op, paths, data)
	}
}

func vfsMkdirAll(path string, perm os.FileMode) error {
	vfsHook("MkdirAll", nil, path)
	return os.MkdirAll(path, perm)
}

func vfsWriteFile(name string, data []byte, perm os.FileMode) error {
	vfsHook("WriteFile", data, name)
	return os.WriteFile(name, data, perm)
}

func vfsCreateTemp(dir, pattern string) (*os.File, error) {
	vfsHook("CreateTemp", nil, dir)
	return os.CreateTemp(dir, pattern)
}

func vfsRename(oldpath, newpath string) error {
	vfsHook("Rename", nil, oldpath, newpath)
	return os.Rename(oldpath, newpath)
}

func vfsRemove(name string) error {
	vfsHook("Remove", nil, name)
	return os.Remove(name)
}
