package store

// Injected by /verif (go build -overlay) together with copies of dir.go, mem.go and store.go in which the mutating
// os calls are replaced by the wrappers below: the hook sees every file system mutation right before it happens
// (the state a process crash at that point leaves behind). Not part of olareg.

import "os"

// VerifVfsHook is called before every mutating file system call of the store.
var VerifVfsHook func(op string, paths []string, data []byte)

// VerifVfsFault is asked before every mutating file system call of the store (after VerifVfsHook): a non-nil error is
// returned to the caller instead of performing the call (an injected storage fault).
var VerifVfsFault func(op string, paths []string) error

func vfsFault(op string, paths ...string) error {
	if h := VerifVfsFault; h != nil {
		return h(op, paths)
	}
	return nil
}

func vfsHook(op string, data []byte, paths ...string) {
	if h := VerifVfsHook; h != nil {
		h(op, paths, data)
	}
}

func vfsMkdirAll(path string, perm os.FileMode) error {
	vfsHook("MkdirAll", nil, path)
	if err := vfsFault("MkdirAll", path); err != nil {
		return err
	}
	return os.MkdirAll(path, perm)
}

func vfsWriteFile(name string, data []byte, perm os.FileMode) error {
	vfsHook("WriteFile", data, name)
	if err := vfsFault("WriteFile", name); err != nil {
		return err
	}
	return os.WriteFile(name, data, perm)
}

func vfsCreateTemp(dir, pattern string) (*os.File, error) {
	vfsHook("CreateTemp", nil, dir)
	if err := vfsFault("CreateTemp", dir); err != nil {
		return nil, err
	}
	return os.CreateTemp(dir, pattern)
}

func vfsRename(oldpath, newpath string) error {
	vfsHook("Rename", nil, oldpath, newpath)
	if err := vfsFault("Rename", oldpath, newpath); err != nil {
		return err
	}
	return os.Rename(oldpath, newpath)
}

func vfsRemove(name string) error {
	vfsHook("Remove", nil, name)
	if err := vfsFault("Remove", name); err != nil {
		return err
	}
	return os.Remove(name)
}
