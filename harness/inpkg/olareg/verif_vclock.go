package olareg

// Injected by /verif (go build -overlay): access to the virtual clock of internal/cache for the external harness.

import (
	"time"

	"github.com/olareg/olareg/internal/cache"
)

func VerifClockAdvance(d time.Duration) { cache.VerifClockAdvance(d) }
func VerifClockFireDue() bool           { return cache.VerifClockFireDue() }
func VerifClockRunQueued() bool         { return cache.VerifClockRunQueued() }
func VerifClockPending() int            { return cache.VerifClockPending() }
func VerifClockReset()                  { cache.VerifClockReset() }
