package olareg

// Injected by /verif (go build -overlay): gives the harness access to the file system hook of the rewritten store.

import "github.com/olareg/olareg/internal/store"

// VerifSetVfsHook installs f as the hook called before every mutating file system call of the store.
func VerifSetVfsHook(f func(op string, paths []string, data []byte)) {
	store.VerifVfsHook = f
}

// VerifSetVfsFault installs f as the fault injector asked before every mutating file system call of the store.
func VerifSetVfsFault(f func(op string, paths []string) error) {
	store.VerifVfsFault = f
}
