package main

// Execution of primitive operations (one HTTP request, or one environment action) against the real server.

import (
	"encoding/base64"
	"encoding/json"
	"fmt"
	"math/rand"
	"net/url"
	"os"
	"path/filepath"
	"regexp"
	"strconv"
	"strings"
	"time"

	"github.com/opencontainers/go-digest"

	"github.com/olareg/olareg"
	"github.com/olareg/olareg/types"
)

type Ref struct {
	K string `json:"k"` // tag | dig | raw
	V string `json:"v"`
}

type Chunk struct {
	C string `json:"c"` // content id
	P string `json:"p"` // all | p1 | p2 | p3 | e (empty)
}

// Op is one abstract operation; unused fields keep their zero value.
type Op struct {
	Op       string   `json:"op"`
	Repo     string   `json:"repo"`
	Dig      string   `json:"dig"`
	Body     string   `json:"body"`
	Ref      Ref      `json:"ref"`
	Ctype    string   `json:"ctype"`
	CtVar    string   `json:"ctvar"`
	LenKnown bool     `json:"lenKnown"`
	DParam   string   `json:"dparam"`
	Sess     string   `json:"sess"`
	Cr       string   `json:"cr"`
	St       string   `json:"st"`
	Chunk    Chunk    `json:"chunk"`
	Alg      string   `json:"alg"`
	Mount    string   `json:"mount"`
	From     string   `json:"from"`
	N        string   `json:"n"`
	NI       int      `json:"ni"`
	NC       string   `json:"nc"`
	Last     int      `json:"last"`
	Subject  string   `json:"subject"`
	Filter   string   `json:"filter"`
	Accept   string   `json:"accept"`
	Range    string   `json:"range"`
	Method   string   `json:"method"`
	Which    string   `json:"which"`
	Evicted  []string `json:"evicted,omitempty"` // op Evict (logged only): handles of the sessions a count prune removed
	Via      string   `json:"via,omitempty"`     // "other": executed (and observed) through a second server on the same directory = another tool writing to the layout
	Raw      *RawReq  `json:"raw,omitempty"`
	NewCfg   *SrvCfg  `json:"newcfg,omitempty"`
}

// RawReq is a fully concrete request (used by the routing/error classes of C15).
type RawReq struct {
	Method string            `json:"method"`
	Target string            `json:"target"`
	Header map[string]string `json:"header"`
	Body   string            `json:"body"` // base64
}

// Resp is the projected response.
type Resp struct {
	Status  int      `json:"status"`
	Code    string   `json:"code"`
	Codes   []string `json:"codes"`
	ErrDoc  string   `json:"errdoc"` // none | ok | bad
	Sess    string   `json:"sess"`
	Off     int      `json:"off"`
	StOff   int      `json:"stoff"`
	Dig     string   `json:"dig"`
	LocDig  string   `json:"locdig"`
	Ctype   string   `json:"ctype"`
	Body    string   `json:"body"`
	BodyOK  bool     `json:"bodyok"`
	Len     int      `json:"len"`
	Panic   bool     `json:"panic"`
	Hung    bool     `json:"hung"`
	List    []string `json:"list"`
	ListOK  bool     `json:"listok"`
	Link    bool     `json:"link"`
	LinkURL string   `json:"-"`
	Subject string   `json:"subject"`
	FA      bool     `json:"fa"`
	CLen    int      `json:"clen"` // length of the chunk that was sent
	Note    string   `json:"note"`
}

// virtual clock (set by vclock.go in the vclock build)
var (
	vclockOn        bool
	vclockReset     = func() {}
	vclockAdvance   = func(sec int) {}
	vclockFire      = func() int { return 0 }
	vclockPending   = func() int { return 0 }
	vclockRunQueued = func() int { return 0 }
)

type sessInfo struct {
	repoReal string
	id       string
	accepted int // bytes this client had acknowledged
}

// Exec holds the per-trace execution state of the harness (client side knowledge only).
type Exec struct {
	Cat         *Catalogue
	Srv         *Srv
	Rng         *rand.Rand
	Sess        map[string]*sessInfo
	NSess       int
	Cuts        map[string][2]int
	Actor       string
	Extra       map[string]bool // repositories outside the model (created by MkCorrupt)
	MaxRefPages int
}

func NewExec(cat *Catalogue, srv *Srv, seed int64) *Exec {
	e := &Exec{Cat: cat, Srv: srv, Rng: rand.New(rand.NewSource(seed)), Sess: map[string]*sessInfo{}, Cuts: map[string][2]int{}, Extra: map[string]bool{}}
	for _, id := range cat.Order {
		n := len(cat.C[id].Bytes)
		a, b := 0, 0
		if n > 0 {
			a = e.Rng.Intn(n + 1)
			b = e.Rng.Intn(n + 1)
			if a > b {
				a, b = b, a
			}
		}
		e.Cuts[id] = [2]int{a, b}
	}
	return e
}

func (e *Exec) repoReal(r string) string {
	if strings.HasPrefix(r, "raw:") {
		return r[4:]
	}
	if real, ok := e.Cat.RepoReal[r]; ok {
		return real
	}
	return r
}

func (e *Exec) chunkBytes(c Chunk) []byte {
	if c.P == "e" || c.C == "" {
		return []byte{}
	}
	ct, ok := e.Cat.C[c.C]
	if !ok {
		return []byte("unknown-content-" + c.C)
	}
	b := ct.Bytes
	cu := e.Cuts[c.C]
	switch c.P {
	case "all":
		return b
	case "p1":
		return b[:cu[0]]
	case "p2":
		return b[cu[0]:cu[1]]
	case "p3":
		return b[cu[1]:]
	}
	return []byte{}
}

// bodyBytes concretises a manifest body class.
func (e *Exec) bodyBytes(body string) []byte {
	switch {
	case body == "":
		return []byte{}
	case body == "junk":
		return []byte("this is not json {{{")
	case body == "empty":
		return []byte("{}")
	case strings.HasPrefix(body, "trunc:"):
		ct := e.Cat.C[body[6:]]
		b := ct.Bytes[:len(ct.Bytes)-ct.Def.Pad] // cut inside the JSON document, not inside trailing padding
		return b[:len(b)/2]
	case strings.HasPrefix(body, "json:"):
		return []byte(body[5:])
	}
	if ct, ok := e.Cat.C[body]; ok {
		return ct.Bytes
	}
	return []byte(body)
}

var badDigests = map[string]string{
	"bad:short":   "sha256:abcd",
	"bad:alg":     "md5:d41d8cd98f00b204e9800998ecf8427e",
	"bad:upper":   "sha256:" + strings.Repeat("A", 64),
	"bad:nocolon": strings.Repeat("a", 64),
	"bad:empty":   "",
	"bad:long":    "sha256:" + strings.Repeat("a", 65),
	"bad:path":    "sha256:../../../../etc/passwd",
}

func (e *Exec) digReal(s string) string {
	if v, ok := badDigests[s]; ok {
		return v
	}
	return e.Cat.Real(s)
}

func (e *Exec) refReal(r Ref) string {
	switch r.K {
	case "tag":
		if real, ok := e.Cat.TagReal[r.V]; ok {
			return real
		}
		return r.V
	case "dig":
		return e.digReal(r.V)
	}
	return r.V
}

func stateTok(off int) string {
	b, _ := json.Marshal(map[string]int{"offset": off})
	return base64.RawURLEncoding.EncodeToString(b)
}

func (e *Exec) acceptHeader(code string, stored string) map[string]string {
	all := []string{types.MediaTypeOCI1Manifest, types.MediaTypeOCI1ManifestList, types.MediaTypeDocker2Manifest, types.MediaTypeDocker2ManifestList}
	switch code {
	case "", "all", "comma":
		return map[string]string{"Accept": strings.Join(all, ", ")}
	case "commarev":
		return map[string]string{"Accept": all[3] + "," + all[2] + ";q=0.5 ," + all[1] + "," + all[0]}
	case "none":
		return map[string]string{}
	}
	if l, ok := mtLong[code]; ok {
		return map[string]string{"Accept": l}
	}
	return map[string]string{"Accept": code}
}

var reSessLoc = regexp.MustCompile(`/blobs/uploads/([^/?]+)\?state=([A-Za-z0-9_-]*)`)
var reRange = regexp.MustCompile(`^0-(-?\d+)$`)

func (e *Exec) project(hr HTTPResp) Resp {
	r := Resp{Status: hr.Status, Off: -1, StOff: -1, Len: -1, Codes: []string{}, List: []string{}, ErrDoc: "none"}
	if hr.Panic != "" {
		r.Panic = true
		r.Note = firstLine(hr.Panic)
		return r
	}
	if hr.Hung {
		r.Hung = true
		return r
	}
	h := hr.Header
	r.Dig = e.Cat.Sym(h.Get("Docker-Content-Digest"))
	if ct := h.Get("Content-Type"); ct != "" {
		if s, ok := mtShort[ct]; ok {
			r.Ctype = s
		} else {
			r.Ctype = ct
		}
	}
	if cl := h.Get("Content-Length"); cl != "" {
		if n, err := strconv.Atoi(cl); err == nil {
			r.Len = n
		}
	}
	if loc := h.Get("Location"); loc != "" {
		if m := reSessLoc.FindStringSubmatch(loc); m != nil {
			r.Note = m[1]
			if b, err := base64.RawURLEncoding.DecodeString(m[2]); err == nil {
				var st struct {
					Offset *int `json:"offset"`
				}
				if json.Unmarshal(b, &st) == nil && st.Offset != nil {
					r.StOff = *st.Offset
				}
			}
		} else if i := strings.LastIndex(loc, "/"); i >= 0 {
			r.LocDig = e.Cat.Sym(loc[i+1:])
		}
	}
	if rg := h.Get("Range"); rg != "" {
		if m := reRange.FindStringSubmatch(rg); m != nil {
			n, _ := strconv.Atoi(m[1])
			r.Off = n + 1
		}
	}
	if l := h.Get("Link"); l != "" {
		r.Link = true
		if i, j := strings.Index(l, "<"), strings.Index(l, ">"); i >= 0 && j > i {
			r.LinkURL = l[i+1 : j]
		}
	}
	r.Subject = e.Cat.Sym(h.Get("OCI-Subject"))
	r.FA = h.Get("OCI-Filters-Applied") != ""
	if hr.Status >= 400 && len(hr.Body) > 0 {
		var ed struct {
			Errors []struct {
				Code    string `json:"code"`
				Message string `json:"message"`
			} `json:"errors"`
		}
		if err := json.Unmarshal(hr.Body, &ed); err != nil || len(ed.Errors) == 0 {
			r.ErrDoc = "bad"
		} else {
			r.ErrDoc = "ok"
			for _, x := range ed.Errors {
				r.Codes = append(r.Codes, x.Code)
			}
			r.Code = ed.Errors[0].Code
		}
	}
	return r
}

func firstLine(s string) string {
	if i := strings.Index(s, "\n"); i >= 0 {
		return s[:i]
	}
	return s
}

// sliceFor computes the byte slice a range class denotes for content of length n; ok=false when unsatisfiable.
func rangeFor(code string, n int) (hdr string, from, to int, ok bool) {
	switch code {
	case "pre":
		if n < 1 {
			return "bytes=0-9", 0, 0, false
		}
		to = 10
		if to > n {
			to = n
		}
		return "bytes=0-9", 0, to, true
	case "mid":
		if n < 3 {
			return "bytes=2-2", 0, 0, false
		}
		return fmt.Sprintf("bytes=1-%d", n-2), 1, n - 1, true
	case "suf":
		if n < 1 {
			return "bytes=-5", 0, 0, false
		}
		from = n - 5
		if from < 0 {
			from = 0
		}
		return "bytes=-5", from, n, true
	case "open":
		if n < 2 {
			return "bytes=1-", 0, 0, false
		}
		return "bytes=1-", 1, n, true
	case "unsat":
		return fmt.Sprintf("bytes=%d-", n+10), 0, 0, false
	}
	return "", 0, n, true
}

// readResp fills Body/BodyOK for a read: the body must be the (slice of the) content named by the digest header.
func (e *Exec) readResp(r *Resp, hr HTTPResp, method, rangeCode string, wantSym string) {
	if hr.Status != 200 && hr.Status != 206 {
		return
	}
	symb := wantSym
	if symb == "" {
		symb = r.Dig
	}
	_, cid := splitSym(symb)
	ct, ok := e.Cat.C[cid]
	if !ok {
		r.Body = "?"
		return
	}
	_, from, to, _ := rangeFor(rangeCode, len(ct.Bytes))
	if hr.Status == 200 {
		from, to = 0, len(ct.Bytes)
	}
	want := ct.Bytes[from:to]
	r.Body = cid
	if method == "HEAD" {
		r.BodyOK = len(hr.Body) == 0 && r.Len == len(want)
	} else {
		r.BodyOK = string(hr.Body) == string(want) && r.Len == len(want)
	}
	// the digest header, if any, must be the real hash of the content under its own algorithm
	if dh := hr.Header.Get("Docker-Content-Digest"); dh != "" && hr.Status == 200 && method != "HEAD" {
		if d, err := digest.Parse(dh); err != nil || d.Algorithm().FromBytes(hr.Body) != d {
			r.BodyOK = false
		}
	}
}

// Do executes one primitive operation.
func (e *Exec) Do(op Op) Resp {
	repo := e.repoReal(op.Repo)
	base := "/v2/" + repo
	switch op.Op {
	case "Ping":
		return e.project(e.Srv.Do("GET", "/v2/", nil, nil, true, e.Actor))
	case "BlobGet":
		m := op.Method
		if m == "" {
			m = "GET"
		}
		hdr := map[string]string{}
		if op.Range != "" {
			_, cid := splitSym(op.Dig)
			n := 0
			if ct, ok := e.Cat.C[cid]; ok {
				n = len(ct.Bytes)
			}
			h, _, _, _ := rangeFor(op.Range, n)
			hdr["Range"] = h
		}
		hr := e.Srv.Do(m, base+"/blobs/"+e.digReal(op.Dig), hdr, nil, true, e.Actor)
		r := e.project(hr)
		e.readResp(&r, hr, m, op.Range, op.Dig)
		return r
	case "BlobDel":
		return e.project(e.Srv.Do("DELETE", base+"/blobs/"+e.digReal(op.Dig), nil, nil, true, e.Actor))
	case "UpPost":
		q := url.Values{}
		if op.Dig != "" {
			q.Set("digest", e.digReal(op.Dig))
		}
		if op.Alg != "" {
			q.Set("digest-algorithm", op.Alg)
		}
		if op.Mount != "" {
			q.Set("mount", e.digReal(op.Mount))
		}
		if op.From != "" {
			q.Set("from", e.repoReal(op.From))
		}
		var body []byte
		if op.Dig != "" {
			body = e.chunkBytes(op.Chunk)
		}
		t := base + "/blobs/uploads/"
		if len(q) > 0 {
			t += "?" + q.Encode()
		}
		hr := e.Srv.Do("POST", t, nil, body, true, e.Actor)
		r := e.project(hr)
		r.CLen = len(body)
		if hr.Status == 202 && r.Note != "" {
			e.NSess++
			h := fmt.Sprintf("s%d", e.NSess)
			e.Sess[h] = &sessInfo{repoReal: repo, id: r.Note}
			r.Sess = h
			r.Note = ""
		}
		return r
	case "UpPatch", "UpPut":
		si := e.Sess[op.Sess]
		id := "nosuchsession"
		acc := 0
		if si != nil {
			id = si.id
			acc = si.accepted
		} else if strings.HasPrefix(op.Sess, "raw:") {
			id = op.Sess[4:]
		}
		body := e.chunkBytes(op.Chunk)
		hdr := map[string]string{}
		switch op.Cr {
		case "ok":
			hdr["Content-Range"] = fmt.Sprintf("%d-%d", acc, acc+len(body)-1)
		case "stale":
			hdr["Content-Range"] = fmt.Sprintf("%d-%d", acc-1, acc-1+len(body)-1)
		case "future":
			hdr["Content-Range"] = fmt.Sprintf("%d-%d", acc+1, acc+1+len(body)-1)
		case "bad":
			hdr["Content-Range"] = "bytes"
		}
		q := url.Values{}
		switch op.St {
		case "ok":
			q.Set("state", stateTok(acc))
		case "stale":
			q.Set("state", stateTok(acc-1))
		case "future":
			q.Set("state", stateTok(acc+1))
		case "b64":
			q.Set("state", "!!!not base64!!!")
		case "json":
			q.Set("state", base64.RawURLEncoding.EncodeToString([]byte("{not json")))
		}
		method := "PATCH"
		if op.Op == "UpPut" {
			method = "PUT"
			if op.Dig != "" {
				q.Set("digest", e.digReal(op.Dig))
			}
		}
		t := base + "/blobs/uploads/" + id
		if len(q) > 0 {
			t += "?" + q.Encode()
		}
		hr := e.Srv.Do(method, t, hdr, body, true, e.Actor)
		r := e.project(hr)
		r.CLen = len(body)
		if si != nil && op.Op == "UpPatch" && hr.Status == 202 {
			si.accepted += len(body)
		}
		return r
	case "UpGet", "UpDel":
		si := e.Sess[op.Sess]
		id := "nosuchsession"
		if si != nil {
			id = si.id
		} else if strings.HasPrefix(op.Sess, "raw:") {
			id = op.Sess[4:]
		}
		m := "GET"
		if op.Op == "UpDel" {
			m = "DELETE"
		}
		return e.project(e.Srv.Do(m, base+"/blobs/uploads/"+id, nil, nil, true, e.Actor))
	case "ManPut":
		body := e.bodyBytes(op.Body)
		hdr := map[string]string{}
		if op.Ctype != "" {
			ct := op.Ctype
			if l, ok := mtLong[ct]; ok {
				ct = l
			} else if ct == "bad" {
				ct = "text/plain"
			}
			switch op.CtVar {
			case "param":
				ct += "; charset=utf-8"
			case "upper":
				ct = strings.ToUpper(ct)
			}
			hdr["Content-Type"] = ct
		}
		t := base + "/manifests/" + e.refReal(op.Ref)
		if op.DParam != "" {
			t += "?digest=" + url.QueryEscape(e.digReal(op.DParam))
		}
		hr := e.Srv.Do("PUT", t, hdr, body, op.LenKnown, e.Actor)
		r := e.project(hr)
		r.CLen = len(body)
		return r
	case "ManGet":
		m := op.Method
		if m == "" {
			m = "GET"
		}
		hdr := e.acceptHeader(op.Accept, "")
		if op.Range != "" {
			// the slice is relative to the content the reference resolves to: use the digest for digests, else probe
			n := 0
			if op.Ref.K == "dig" {
				_, cid := splitSym(op.Ref.V)
				if ct, ok := e.Cat.C[cid]; ok {
					n = len(ct.Bytes)
				}
			} else {
				pr := e.project(e.Srv.Do("HEAD", base+"/manifests/"+e.refReal(op.Ref), hdr, nil, true, e.Actor))
				if pr.Len > 0 {
					n = pr.Len
				}
			}
			h, _, _, _ := rangeFor(op.Range, n)
			hdr["Range"] = h
		}
		hr := e.Srv.Do(m, base+"/manifests/"+e.refReal(op.Ref), hdr, nil, true, e.Actor)
		r := e.project(hr)
		want := ""
		if op.Ref.K == "dig" {
			want = op.Ref.V
		}
		e.readResp(&r, hr, m, op.Range, want)
		return r
	case "ManDel":
		return e.project(e.Srv.Do("DELETE", base+"/manifests/"+e.refReal(op.Ref), nil, nil, true, e.Actor))
	case "TagsList":
		q := url.Values{}
		if op.N != "" {
			q.Set("n", op.N)
		}
		if op.Last != 0 {
			q.Set("last", e.lastReal(op.Last))
		}
		t := base + "/tags/list"
		if len(q) > 0 {
			t += "?" + q.Encode()
		}
		m := op.Method
		if m == "" {
			m = "GET"
		}
		hr := e.Srv.Do(m, t, nil, nil, true, e.Actor)
		r := e.project(hr)
		e.tagListResp(&r, hr, repo)
		return r
	case "GC":
		err := e.Srv.S.VerifGC(repo)
		r := Resp{Status: 200, Off: -1, StOff: -1, Len: -1, Codes: []string{}, List: []string{}, ErrDoc: "none"}
		if err != nil {
			r.Status = 500
			r.Note = err.Error()
		}
		return r
	case "Tick":
		// virtual time passes and every due timer fires (only in the vclock build; elsewhere nothing happens)
		r := Resp{Status: 200, Off: -1, StOff: -1, Len: -1, Codes: []string{}, List: []string{}, ErrDoc: "none"}
		if vclockOn {
			vclockAdvance(op.NI)
			r.Len = vclockFire()
		} else {
			r.Note = "no virtual clock in this build"
		}
		return r
	case "Age":
		n, err := e.Srv.S.VerifAgeRepo(repo, time.Now().Add(-2*time.Hour))
		r := Resp{Status: 200, Off: -1, StOff: -1, Len: n, Codes: []string{}, List: []string{}, ErrDoc: "none"}
		if err != nil {
			r.Status = 500
			r.Note = err.Error()
		}
		return r
	case "MkCorrupt":
		// a repository next to the modelled ones whose collection fails (corrupt index), that exists only in the
		// repository cache (phantom), or whose directory was removed behind the store's back
		r := Resp{Status: 200, Off: -1, StOff: -1, Len: -1, Codes: []string{}, List: []string{}, ErrDoc: "none"}
		if e.Srv.Root != "" && e.Srv.Cfg.Store == "dir" {
			dir := filepath.Join(e.Srv.Root, repo)
			switch op.Which {
			case "corrupt":
				_ = os.MkdirAll(dir, 0o755)
				_ = os.WriteFile(filepath.Join(dir, "oci-layout"), []byte(`{"imageLayoutVersion":"1.0.0"}`), 0o644)
				_ = os.WriteFile(filepath.Join(dir, "index.json"), []byte(`{"schemaVersion":2,"manifests":[{corrupt`), 0o644)
			case "removed":
				_ = os.RemoveAll(dir)
			}
		}
		e.Srv.Do("GET", "/v2/"+repo+"/tags/list", nil, nil, true, "")
		e.Extra[repo] = true
		return r
	case "GCPass":
		// the pass of the tick `now`; the previous tick was a minute ago and every repository was last modified
		// right at that previous tick: the pass must visit all of them
		now := time.Now()
		prev := now.Add(-time.Minute)
		for _, rm := range e.Cat.Repos {
			_ = e.Srv.S.VerifSetRepoTime(e.Cat.RepoReal[rm], prev)
		}
		for x := range e.Extra {
			_ = e.Srv.S.VerifSetRepoTime(x, prev)
		}
		err := e.Srv.S.VerifGCPass(now, prev)
		r := Resp{Status: 200, Off: -1, StOff: -1, Len: -1, Codes: []string{}, List: []string{}, ErrDoc: "none"}
		if err != nil {
			r.Status = 500
			r.Note = err.Error()
		}
		return r
	case "ProbeAll":
		// reads everything the directory of the repository lists (index entries by digest and tag, their blobs,
		// referrers of every digest): forces index loading and referrer conversion on pre-existing content
		r := Resp{Status: 200, Off: -1, StOff: -1, Len: 0, Codes: []string{}, List: []string{}, ErrDoc: "none"}
		if e.Srv.Root == "" {
			return r
		}
		b, err := os.ReadFile(filepath.Join(e.Srv.Root, repo, "index.json"))
		var idx types.Index
		if err != nil || json.Unmarshal(b, &idx) != nil {
			hr := e.Srv.Do("GET", base+"/tags/list", nil, nil, true, "")
			r.Note = fmt.Sprintf("index unreadable, tags/list=%d", hr.Status)
			if hr.Status >= 500 || hr.Panic != "" || hr.Hung {
				r.Status = 500
			}
			return r
		}
		acc := e.acceptHeader("all", "")
		worst := 0
		do := func(m, t string, h map[string]string) {
			hr := e.Srv.Do(m, t, h, nil, true, "")
			r.Len++
			if hr.Panic != "" || hr.Hung {
				r.Panic = true
			}
			if hr.Status > worst {
				worst = hr.Status
			}
		}
		do("GET", base+"/tags/list", nil)
		for _, m := range idx.Manifests {
			do("GET", base+"/manifests/"+m.Digest.String(), acc)
			do("GET", base+"/blobs/"+m.Digest.String(), nil)
			do("GET", base+"/referrers/"+m.Digest.String(), nil)
			if m.Annotations != nil && m.Annotations[types.AnnotRefName] != "" {
				do("GET", base+"/manifests/"+m.Annotations[types.AnnotRefName], acc)
			}
		}
		if worst >= 500 {
			r.Status = worst
		}
		return r
	case "Reconf":
		// close the server and open a new one with another configuration / store kind on the same directory
		err := e.Srv.S.Close()
		nc := *op.NewCfg
		e.Srv.Cfg = nc
		e.Srv.conf = nc.toConfig(e.Srv.Root)
		e.Srv.S = olareg.New(e.Srv.conf)
		e.Sess = map[string]*sessInfo{}
		r := Resp{Status: 200, Off: -1, StOff: -1, Len: -1, Codes: []string{}, List: []string{}, ErrDoc: "none"}
		if err != nil {
			r.Note = err.Error()
		}
		return r
	case "Restart":
		err := e.Srv.Restart()
		e.Sess = map[string]*sessInfo{}
		r := Resp{Status: 200, Off: -1, StOff: -1, Len: -1, Codes: []string{}, List: []string{}, ErrDoc: "none"}
		if err != nil {
			r.Status = 500
			r.Note = err.Error()
		}
		return r
	case "Raw":
		var body []byte
		if op.Raw.Body != "" {
			body, _ = base64.StdEncoding.DecodeString(op.Raw.Body)
		}
		return e.project(e.Srv.Do(op.Raw.Method, op.Raw.Target, op.Raw.Header, body, true, e.Actor))
	}
	return Resp{Status: -1, Note: "unknown op " + op.Op, Codes: []string{}, List: []string{}}
}

// lastReal concretises the rank code of the `last` parameter: 2k = the k-th tag, 2k+1 = a string between tag k and k+1.
func (e *Exec) lastReal(code int) string {
	k := code / 2
	if k < 1 {
		return "0" // sorts before every generated tag (all start with a letter >= 'b'), odd code 1
	}
	if k > len(e.Cat.Tags) {
		k = len(e.Cat.Tags)
	}
	real := e.Cat.TagReal[e.Cat.Tags[k-1]]
	if code%2 == 1 {
		return real + "~"
	}
	return real
}

func (e *Exec) tagListResp(r *Resp, hr HTTPResp, repo string) {
	if hr.Status != 200 {
		return
	}
	if len(hr.Body) == 0 {
		r.ListOK = true // HEAD
		return
	}
	var tl types.TagList
	if err := json.Unmarshal(hr.Body, &tl); err != nil {
		r.ListOK = false
		return
	}
	r.ListOK = tl.Name == repo && tl.Tags != nil && r.Len == len(hr.Body)
	for _, t := range tl.Tags {
		if m, ok := e.Cat.TagModel[t]; ok {
			r.List = append(r.List, m)
		} else {
			r.List = append(r.List, "?"+t)
		}
	}
}
