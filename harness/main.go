package main

import (
	"bufio"
	"encoding/json"
	"flag"
	"fmt"
	"os"
	"strings"
)

// Program is one history to execute: configuration, universe and operations.
type Program struct {
	ID       string   `json:"id"`
	Cfg      *SrvCfg  `json:"cfg"`
	Contents []string `json:"contents"`
	Algs     []string `json:"algs"`
	Repos    []string `json:"repos"` // real repository names (model r1, r2, ...)
	NTags    int      `json:"ntags"`
	TagStyle int      `json:"tagstyle"`
	Seed     int64    `json:"seed"`
	Ops      []Op     `json:"ops"`
	Pre      string   `json:"pre"` // pre-existing directory content: "" | "testrepo" | path
}

func main() {
	if len(os.Args) < 2 {
		fmt.Fprintln(os.Stderr, "usage: vharness <catalogue|run|index|...> [flags]")
		os.Exit(2)
	}
	switch os.Args[1] {
	case "catalogue":
		cmdCatalogue(os.Args[2:])
	case "run":
		cmdRun(os.Args[2:])
	default:
		if f, ok := extraCmds[os.Args[1]]; ok {
			f(os.Args[2:])
			return
		}
		fmt.Fprintln(os.Stderr, "unknown command", os.Args[1])
		os.Exit(2)
	}
}

var extraCmds = map[string]func([]string){}

func splitList(s string) []string {
	if s == "" {
		return nil
	}
	return strings.Split(s, ",")
}

func cmdCatalogue(args []string) {
	fs := flag.NewFlagSet("catalogue", flag.ExitOnError)
	contents := fs.String("contents", "m1,m2,x1,a1,a2", "content ids")
	algs := fs.String("algs", "sha256", "algorithms")
	seed := fs.Int64("seed", 1, "seed")
	out := fs.String("o", "-", "output file")
	cfgJSON := fs.String("cfg", "", "JSON overrides of the default server configuration")
	ntags := fs.Int("ntags", 3, "number of model tags")
	nrepos := fs.Int("nrepos", 2, "number of model repositories")
	_ = fs.Parse(args)
	repos := []string{"proj/app", "proj", "other"}[:*nrepos]
	cat, err := BuildCatalogue(CatOpts{Seed: *seed, Contents: splitList(*contents), Algs: splitList(*algs), NTags: *ntags, Repos: repos})
	if err != nil {
		fatal(err)
	}
	cfg := DefaultCfg("dir")
	if *cfgJSON != "" {
		if err := json.Unmarshal([]byte(*cfgJSON), &cfg); err != nil {
			fatal(err)
		}
	}
	hdr := cat.Header()
	hdr["cfg"] = cfg
	cuts := map[string]any{}
	for _, id := range cat.Order {
		n := len(cat.C[id].Bytes)
		cuts[id] = map[string]int{"p1": n / 3, "p2": n / 3, "p3": n - 2*(n/3), "all": n, "e": 0}
	}
	hdr["cuts"] = cuts
	b, _ := json.Marshal(hdr)
	if *out == "-" {
		fmt.Println(string(b))
	} else if err := os.WriteFile(*out, append(b, '\n'), 0o644); err != nil {
		fatal(err)
	}
}

func fatal(err error) {
	fmt.Fprintln(os.Stderr, "vharness:", err)
	os.Exit(2)
}

func cmdRun(args []string) {
	fs := flag.NewFlagSet("run", flag.ExitOnError)
	progs := fs.String("programs", "", "ndjson file of programs")
	out := fs.String("o", "trace.ndjson", "trace output")
	stores := fs.String("stores", "mem,dir", "store kinds to run every program on (overrides cfg.store)")
	seed := fs.Int64("seed", 1, "seed")
	obs := fs.String("obs", "refs,sess", "observation parts: refs,filters,disk,sess,ranges")
	keep := fs.String("keep", "", "directory to keep roots in (default: temp, removed)")
	_ = fs.Parse(args)
	oo := ObsOpts{}
	for _, p := range splitList(*obs) {
		switch p {
		case "refs":
			oo.Refs = true
		case "filters":
			oo.Filters = true
		case "disk":
			oo.Disk = true
		case "sess":
			oo.Sess = true
		case "ranges":
			oo.Ranges = true
		}
	}
	in, err := os.Open(*progs)
	if err != nil {
		fatal(err)
	}
	defer in.Close()
	of, err := os.Create(*out)
	if err != nil {
		fatal(err)
	}
	w := bufio.NewWriterSize(of, 1<<20)
	defer func() { w.Flush(); of.Close() }()
	enc := json.NewEncoder(w)
	sc := bufio.NewScanner(in)
	sc.Buffer(make([]byte, 1<<20), 1<<26)
	n, events := 0, 0
	for sc.Scan() {
		line := strings.TrimSpace(sc.Text())
		if line == "" {
			continue
		}
		var p Program
		if err := json.Unmarshal([]byte(line), &p); err != nil {
			fatal(fmt.Errorf("program %d: %w", n, err))
		}
		n++
		for _, st := range splitList(*stores) {
			ev, err := RunProgram(&p, st, *seed, oo, enc, *keep)
			if err != nil {
				fatal(err)
			}
			events += ev
		}
	}
	fmt.Fprintf(os.Stderr, "vharness: %d programs, %d events\n", n, events)
}

// RunProgram executes one program on one store kind and writes its trace segment.
func RunProgram(p *Program, store string, seed int64, oo ObsOpts, enc *json.Encoder, keep string) (int, error) {
	pseed := seed*1000003 + p.Seed
	cat, err := BuildCatalogue(CatOpts{Seed: pseed, Contents: p.Contents, Algs: p.Algs, Repos: p.Repos, NTags: p.NTags, TagStyle: p.TagStyle})
	if err != nil {
		return 0, err
	}
	cfg := DefaultCfg(store)
	if p.Cfg != nil {
		cfg = *p.Cfg
		cfg.Store = store
	}
	root := ""
	if store != "mem" {
		if keep != "" {
			root = keep + "/" + p.ID + "-" + store
			_ = os.MkdirAll(root, 0o755)
		} else {
			root = mkTemp("vh-root-")
			defer os.RemoveAll(root)
		}
	}
	srv := NewSrv(cfg, root)
	defer srv.Close()
	ex := NewExec(cat, srv, pseed)
	hdr := cat.Header()
	cuts := map[string]any{}
	for id, c := range ex.Cuts {
		n := len(cat.C[id].Bytes)
		cuts[id] = map[string]int{"p1": c[0], "p2": c[1] - c[0], "p3": n - c[1], "all": n, "e": 0}
	}
	hdr["cuts"] = cuts
	if err := enc.Encode(map[string]any{"k": "reset", "trace": p.ID + "@" + store, "store": store, "cfg": cfg, "cat": hdr}); err != nil {
		return 0, err
	}
	events := 0
	emit := func(op Op, r Resp) error {
		o := map[string]RepoObs{}
		for _, rm := range cat.Repos {
			o[rm] = ex.Observe(rm, oo)
		}
		events++
		return enc.Encode(map[string]any{"k": "op", "i": events, "op": op, "resp": r, "obs": o})
	}
	for _, op := range p.Ops {
		for _, prim := range ex.Expand(op) {
			prim := prim()
			r := ex.Do(prim)
			if err := emit(prim, r); err != nil {
				return events, err
			}
		}
	}
	return events, nil
}

// Expand turns a macro operation into primitive requests; session handles are bound lazily.
func (e *Exec) Expand(op Op) []func() Op {
	lit := func(o Op) func() Op { return func() Op { return o } }
	switch op.Op {
	case "PushBlob":
		// which: mono | postput | chunked | stream
		d := op.Dig
		cid := op.Chunk.C
		cur := func() string { return fmt.Sprintf("s%d", e.NSess) }
		post := Op{Op: "UpPost", Repo: op.Repo, Alg: op.Alg}
		switch op.Which {
		case "mono":
			return []func() Op{lit(Op{Op: "UpPost", Repo: op.Repo, Dig: d, Chunk: Chunk{C: cid, P: "all"}})}
		case "postput":
			return []func() Op{lit(post),
				func() Op {
					return Op{Op: "UpPut", Repo: op.Repo, Sess: cur(), Cr: "none", St: "ok", Dig: d, Chunk: Chunk{C: cid, P: "all"}}
				}}
		case "chunked":
			return []func() Op{lit(post),
				func() Op {
					return Op{Op: "UpPatch", Repo: op.Repo, Sess: cur(), Cr: "ok", St: "ok", Chunk: Chunk{C: cid, P: "p1"}}
				},
				func() Op {
					return Op{Op: "UpPatch", Repo: op.Repo, Sess: cur(), Cr: "none", St: "ok", Chunk: Chunk{C: cid, P: "p2"}}
				},
				func() Op {
					return Op{Op: "UpPut", Repo: op.Repo, Sess: cur(), Cr: "ok", St: "ok", Dig: d, Chunk: Chunk{C: cid, P: "p3"}}
				}}
		default: // stream
			return []func() Op{lit(post),
				func() Op {
					return Op{Op: "UpPatch", Repo: op.Repo, Sess: cur(), Cr: "none", St: "ok", Chunk: Chunk{C: cid, P: "all"}}
				},
				func() Op {
					return Op{Op: "UpPut", Repo: op.Repo, Sess: cur(), Cr: "none", St: "ok", Dig: d, Chunk: Chunk{C: cid, P: "e"}}
				}}
		}
	case "Referrers":
		return []func() Op{lit(op)}
	}
	return []func() Op{lit(op)}
}
