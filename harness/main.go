package main

import (
	"bufio"
	"crypto/sha256"
	"encoding/hex"
	"encoding/json"
	"flag"
	"fmt"
	"io/fs"
	"os"
	"path/filepath"
	"sort"
	"strings"
)

var repoDir = "/repo"

// Program is one history to execute: configuration, universe and operations.
type Program struct {
	ID       string   `json:"id"`
	Cfg      *SrvCfg  `json:"cfg"`
	Contents []string `json:"contents"`
	Algs     []string `json:"algs"`
	Repos    []string `json:"repos"` // real repository names (model r1, r2, ...)
	NTags    int      `json:"ntags"`
	TagStyle int      `json:"tagstyle"`
	Seed     int64    `json:"seed"`
	Ops      []Op     `json:"ops"`
	Pre      string   `json:"pre"`      // pre-existing directory content copied into repository r1: "" | "testrepo" | "corrupt" | "legacy"
	Sentinel bool     `json:"sentinel"` // place sentinel siblings next to the root directory and watch them
}

func main() {
	if len(os.Args) < 2 {
		fmt.Fprintln(os.Stderr, "usage: vharness <catalogue|run|index|...> [flags]")
		os.Exit(2)
	}
	switch os.Args[1] {
	case "catalogue":
		cmdCatalogue(os.Args[2:])
	case "run":
		cmdRun(os.Args[2:])
	default:
		if f, ok := extraCmds[os.Args[1]]; ok {
			f(os.Args[2:])
			return
		}
		fmt.Fprintln(os.Stderr, "unknown command", os.Args[1])
		os.Exit(2)
	}
}

var extraCmds = map[string]func([]string){}

func splitList(s string) []string {
	if s == "" {
		return nil
	}
	return strings.Split(s, ",")
}

func cmdCatalogue(args []string) {
	fs := flag.NewFlagSet("catalogue", flag.ExitOnError)
	contents := fs.String("contents", "m1,m2,x1,a1,a2", "content ids")
	algs := fs.String("algs", "sha256", "algorithms")
	seed := fs.Int64("seed", 1, "seed")
	out := fs.String("o", "-", "output file")
	cfgJSON := fs.String("cfg", "", "JSON overrides of the default server configuration")
	reconfJSON := fs.String("reconf", "", "JSON list of configurations the Reconf operation may switch to")
	ntags := fs.Int("ntags", 3, "number of model tags")
	nrepos := fs.Int("nrepos", 2, "number of model repositories")
	_ = fs.Parse(args)
	repos := []string{"proj/app", "proj", "other"}[:*nrepos]
	cat, err := BuildCatalogue(CatOpts{Seed: *seed, Contents: splitList(*contents), Algs: splitList(*algs), NTags: *ntags, Repos: repos})
	if err != nil {
		fatal(err)
	}
	cfg := DefaultCfg("dir")
	if *cfgJSON != "" {
		if err := json.Unmarshal([]byte(*cfgJSON), &cfg); err != nil {
			fatal(err)
		}
	}
	hdr := cat.Header()
	hdr["cfg"] = cfg
	reconf := []SrvCfg{}
	if *reconfJSON != "" {
		if err := json.Unmarshal([]byte(*reconfJSON), &reconf); err != nil {
			fatal(err)
		}
	}
	hdr["reconf"] = reconf
	cuts := map[string]any{}
	for _, id := range cat.Order {
		n := len(cat.C[id].Bytes)
		cuts[id] = map[string]int{"p1": n / 3, "p2": n / 3, "p3": n - 2*(n/3), "all": n, "e": 0}
	}
	hdr["cuts"] = cuts
	b, _ := json.Marshal(hdr)
	if *out == "-" {
		fmt.Println(string(b))
	} else if err := os.WriteFile(*out, append(b, '\n'), 0o644); err != nil {
		fatal(err)
	}
}

func fatal(err error) {
	fmt.Fprintln(os.Stderr, "vharness:", err)
	os.Exit(2)
}

func cmdRun(args []string) {
	fs := flag.NewFlagSet("run", flag.ExitOnError)
	progs := fs.String("programs", "", "ndjson file of programs")
	out := fs.String("o", "trace.ndjson", "trace output")
	stores := fs.String("stores", "mem,dir", "store kinds to run every program on (overrides cfg.store)")
	seed := fs.Int64("seed", 1, "seed")
	obs := fs.String("obs", "refs,sess", "observation parts: refs,filters,disk,sess,ranges")
	keep := fs.String("keep", "", "directory to keep roots in (default: temp, removed)")
	rd := fs.String("repo", "/repo", "path of the olareg checkout (for testdata)")
	_ = fs.Parse(args)
	repoDir = *rd
	oo := ObsOpts{}
	for _, p := range splitList(*obs) {
		switch p {
		case "refs":
			oo.Refs = true
		case "filters":
			oo.Filters = true
		case "disk":
			oo.Disk = true
		case "sess":
			oo.Sess = true
		case "ranges":
			oo.Ranges = true
		}
	}
	in, err := os.Open(*progs)
	if err != nil {
		fatal(err)
	}
	defer in.Close()
	of, err := os.Create(*out)
	if err != nil {
		fatal(err)
	}
	w := bufio.NewWriterSize(of, 1<<20)
	defer func() { w.Flush(); of.Close() }()
	enc := json.NewEncoder(w)
	sc := bufio.NewScanner(in)
	sc.Buffer(make([]byte, 1<<20), 1<<26)
	n, events := 0, 0
	for sc.Scan() {
		line := strings.TrimSpace(sc.Text())
		if line == "" {
			continue
		}
		var p Program
		if err := json.Unmarshal([]byte(line), &p); err != nil {
			fatal(fmt.Errorf("program %d: %w", n, err))
		}
		n++
		for _, st := range splitList(*stores) {
			ev, err := RunProgram(&p, st, *seed, oo, enc, *keep)
			if err != nil {
				fatal(err)
			}
			events += ev
		}
	}
	fmt.Fprintf(os.Stderr, "vharness: %d programs, %d events\n", n, events)
}

// RunProgram executes one program on one store kind and writes its trace segment.
func RunProgram(p *Program, store string, seed int64, oo ObsOpts, enc *json.Encoder, keep string) (int, error) {
	pseed := seed*1000003 + p.Seed
	cat, err := BuildCatalogue(CatOpts{Seed: pseed, Contents: p.Contents, Algs: p.Algs, Repos: p.Repos, NTags: p.NTags, TagStyle: p.TagStyle})
	if err != nil {
		return 0, err
	}
	cfg := DefaultCfg(store)
	if p.Cfg != nil {
		cfg = *p.Cfg
		cfg.Store = store
	}
	root, sandbox := "", ""
	if store != "mem" {
		if keep != "" {
			sandbox = keep + "/" + p.ID + "-" + store
		} else {
			sandbox = mkTemp("vh-sandbox-")
			defer os.RemoveAll(sandbox)
		}
		root = filepath.Join(sandbox, "root")
		_ = os.MkdirAll(root, 0o755)
		if p.Sentinel {
			if err := makeSentinels(sandbox, cat); err != nil {
				return 0, err
			}
		}
		if p.Pre != "" {
			if err := copyPre(p.Pre, filepath.Join(root, cat.RepoReal[cat.Repos[0]])); err != nil {
				return 0, err
			}
		}
	}
	srv := NewSrv(cfg, root)
	defer func() { _ = srv.Close() }()
	ex := NewExec(cat, srv, pseed)
	hdr := cat.Header()
	cuts := map[string]any{}
	for id, c := range ex.Cuts {
		n := len(cat.C[id].Bytes)
		cuts[id] = map[string]int{"p1": c[0], "p2": c[1] - c[0], "p3": n - c[1], "all": n, "e": 0}
	}
	hdr["cuts"] = cuts
	sums := func() (string, string) {
		if sandbox == "" {
			return "", ""
		}
		return treeSum(root, ""), treeSum(sandbox, "root")
	}
	rs, osum := sums()
	if err := enc.Encode(map[string]any{"k": "reset", "trace": p.ID + "@" + store, "store": store, "cfg": cfg, "cat": hdr,
		"rootsum": rs, "outsum": osum, "pre": p.Pre}); err != nil {
		return 0, err
	}
	events := 0
	emit := func(op Op, r Resp) error {
		o := map[string]RepoObs{}
		for _, rm := range cat.Repos {
			o[rm] = ex.Observe(rm, oo)
		}
		events++
		rs, osum := sums()
		ev := map[string]any{"k": "op", "i": events, "op": op, "resp": r, "obs": o, "rootsum": rs, "outsum": osum}
		if vclockOn {
			ev["pending"] = vclockPending()
		}
		return enc.Encode(ev)
	}
	// handles of the sessions the server still holds
	live := func() map[string]bool {
		out := map[string]bool{}
		ids := map[string]map[string]bool{}
		for h, si := range ex.Sess {
			if ids[si.repoReal] == nil {
				ids[si.repoReal] = map[string]bool{}
				if l, err := srv.S.VerifSessions(si.repoReal); err == nil {
					for _, id := range l {
						ids[si.repoReal][id] = true
					}
				}
			}
			if ids[si.repoReal][si.id] {
				out[h] = true
			}
		}
		return out
	}
	if vclockOn {
		vclockReset()
	}
	for _, op := range p.Ops {
		for _, prim := range ex.Expand(op) {
			prim := prim()
			if op.Via == "other" && root != "" {
				// another tool (here: a second server, never closed) writes to the layout behind the back of the server under
				// test; the step is observed through the writer, the server under test meets the change with its next request
				saved := ex.Srv
				ex.Srv = NewSrv(cfg, root)
				r := ex.Do(prim)
				err := emit(prim, r)
				ex.Srv = saved
				if err != nil {
					return events, err
				}
				continue
			}
			r := ex.Do(prim)
			if err := emit(prim, r); err != nil {
				return events, err
			}
			if vclockOn && prim.Op != "Tick" {
				vclockAdvance(1) // every operation takes one second of virtual time (spec/Registry.tla: ClockStep)
				if vclockPending() > 0 {
					// the count prune a blob creation spawned runs now, as a step of its own
					before := live()
					vclockRunQueued()
					after := live()
					gone := []string{}
					for h := range before {
						if !after[h] {
							gone = append(gone, h)
						}
					}
					sort.Strings(gone)
					if err := emit(Op{Op: "Evict", Evicted: gone}, Resp{Status: 200, Off: -1, StOff: -1, Len: -1, Codes: []string{}, List: []string{}, ErrDoc: "none"}); err != nil {
						return events, err
					}
					vclockAdvance(1)
				}
			}
		}
	}
	return events, nil
}

// Expand turns a macro operation into primitive requests; session handles are bound lazily.
func (e *Exec) Expand(op Op) []func() Op {
	lit := func(o Op) func() Op { return func() Op { return o } }
	switch op.Op {
	case "PushBlob":
		// which: mono | postput | chunked | stream
		d := op.Dig
		cid := op.Chunk.C
		cur := func() string { return fmt.Sprintf("s%d", e.NSess) }
		post := Op{Op: "UpPost", Repo: op.Repo, Alg: op.Alg}
		switch op.Which {
		case "mono":
			return []func() Op{lit(Op{Op: "UpPost", Repo: op.Repo, Dig: d, Chunk: Chunk{C: cid, P: "all"}})}
		case "postput":
			return []func() Op{lit(post),
				func() Op {
					return Op{Op: "UpPut", Repo: op.Repo, Sess: cur(), Cr: "none", St: "ok", Dig: d, Chunk: Chunk{C: cid, P: "all"}}
				}}
		case "chunked":
			return []func() Op{lit(post),
				func() Op {
					return Op{Op: "UpPatch", Repo: op.Repo, Sess: cur(), Cr: "ok", St: "ok", Chunk: Chunk{C: cid, P: "p1"}}
				},
				func() Op {
					return Op{Op: "UpPatch", Repo: op.Repo, Sess: cur(), Cr: "none", St: "ok", Chunk: Chunk{C: cid, P: "p2"}}
				},
				func() Op {
					return Op{Op: "UpPut", Repo: op.Repo, Sess: cur(), Cr: "ok", St: "ok", Dig: d, Chunk: Chunk{C: cid, P: "p3"}}
				}}
		default: // stream
			return []func() Op{lit(post),
				func() Op {
					return Op{Op: "UpPatch", Repo: op.Repo, Sess: cur(), Cr: "none", St: "ok", Chunk: Chunk{C: cid, P: "all"}}
				},
				func() Op {
					return Op{Op: "UpPut", Repo: op.Repo, Sess: cur(), Cr: "none", St: "ok", Dig: d, Chunk: Chunk{C: cid, P: "e"}}
				}}
		}
	case "Referrers":
		return []func() Op{lit(op)}
	}
	return []func() Op{lit(op)}
}

// treeSum is a digest over names, modes, sizes, contents and modification times of everything below dir
// (except the top level entry `skip`): any creation, modification or deletion changes it.
func treeSum(dir, skip string) string { return treeSumOpt(dir, skip, true) }

// treeSumContent ignores modification times: names, modes, sizes and file contents only.
func treeSumContent(dir string) string { return treeSumOpt(dir, "", false) }

func treeSumOpt(dir, skip string, mtimes bool) string {
	h := sha256.New()
	lines := []string{}
	_ = filepath.WalkDir(dir, func(path string, d fs.DirEntry, err error) error {
		if err != nil {
			lines = append(lines, "ERR "+path)
			return nil
		}
		rel, _ := filepath.Rel(dir, path)
		if skip != "" && (rel == skip || strings.HasPrefix(rel, skip+string(os.PathSeparator))) {
			if d.IsDir() {
				return filepath.SkipDir
			}
			return nil
		}
		fi, err := d.Info()
		if err != nil {
			lines = append(lines, "ERR "+rel)
			return nil
		}
		if !mtimes && d.IsDir() && d.Name() == "_uploads" {
			// an empty folder for upload sessions is not content (a collection removes it when it comes by)
			if ents, err := os.ReadDir(path); err == nil && len(ents) == 0 {
				return nil
			}
		}
		mt := int64(0)
		if mtimes {
			mt = fi.ModTime().UnixNano()
		}
		size := fi.Size()
		if fi.IsDir() && !mtimes {
			size = 0
		}
		line := fmt.Sprintf("%s %v %d %d", rel, fi.Mode(), size, mt)
		if fi.Mode().IsRegular() {
			b, _ := os.ReadFile(path)
			sum := sha256.Sum256(b)
			line += " " + hex.EncodeToString(sum[:8])
		}
		lines = append(lines, line)
		return nil
	})
	sort.Strings(lines)
	for _, l := range lines {
		h.Write([]byte(l + "\n"))
	}
	return hex.EncodeToString(h.Sum(nil)[:12])
}

// makeSentinels creates siblings of the root directory: a valid layout holding every catalogue blob (so that an
// unvalidated cross repository mount from "../victim" would succeed), an empty layout and a plain file.
func makeSentinels(sandbox string, cat *Catalogue) error {
	v := filepath.Join(sandbox, "victim")
	if err := os.MkdirAll(filepath.Join(v, "blobs", "sha256"), 0o755); err != nil {
		return err
	}
	_ = os.WriteFile(filepath.Join(v, "oci-layout"), []byte(`{"imageLayoutVersion":"1.0.0"}`), 0o644)
	_ = os.WriteFile(filepath.Join(v, "index.json"), []byte(`{"schemaVersion":2,"mediaType":"application/vnd.oci.image.index.v1+json","manifests":[]}`), 0o644)
	for _, id := range cat.Order {
		real := cat.SymDig[sym("sha256", id)]
		_ = os.WriteFile(filepath.Join(v, "blobs", "sha256", strings.TrimPrefix(real, "sha256:")), cat.C[id].Bytes, 0o644)
	}
	e := filepath.Join(sandbox, "empty")
	_ = os.MkdirAll(e, 0o755)
	_ = os.WriteFile(filepath.Join(e, "oci-layout"), []byte(`{"imageLayoutVersion":"1.0.0"}`), 0o644)
	_ = os.WriteFile(filepath.Join(e, "index.json"), []byte(`{"schemaVersion":2,"manifests":[]}`), 0o644)
	return os.WriteFile(filepath.Join(sandbox, "outside.txt"), []byte("do not touch"), 0o644)
}

// copyPre places pre-existing content into the directory of the first repository.
func copyPre(kind, dst string) error {
	src := ""
	switch kind {
	case "leftovers":
		// what earlier read-write runs and other tools leave behind: a valid but empty layout with an empty blob
		// directory and an empty _uploads folder, next to it a valid empty layout and a directory that is no layout
		root := filepath.Dir(filepath.Dir(dst)) // dst is root/pre/existing
		empty := `{"schemaVersion":2,"mediaType":"application/vnd.oci.image.index.v1+json","manifests":[],"annotations":{"org.olareg.referrer.convert":"true"}}`
		for _, d := range []string{dst, filepath.Join(root, "other")} {
			if err := os.MkdirAll(d, 0o755); err != nil {
				return err
			}
			_ = os.WriteFile(filepath.Join(d, "oci-layout"), []byte(`{"imageLayoutVersion":"1.0.0"}`), 0o644)
			_ = os.WriteFile(filepath.Join(d, "index.json"), []byte(empty), 0o644)
		}
		_ = os.MkdirAll(filepath.Join(dst, "blobs", "sha256"), 0o755)
		_ = os.MkdirAll(filepath.Join(dst, "_uploads"), 0o755)
		return os.MkdirAll(filepath.Join(root, "emptydir"), 0o755)
	case "testrepo":
		src = filepath.Join(repoDir, "testdata", "testrepo")
	case "corrupt":
		src = filepath.Join(repoDir, "testdata", "corrupt")
	default:
		src = kind
	}
	return filepath.WalkDir(src, func(path string, d fs.DirEntry, err error) error {
		if err != nil {
			return err
		}
		rel, _ := filepath.Rel(src, path)
		if d.IsDir() {
			return os.MkdirAll(filepath.Join(dst, rel), 0o755)
		}
		b, err := os.ReadFile(path)
		if err != nil {
			return err
		}
		return os.WriteFile(filepath.Join(dst, rel), b, 0o644)
	})
}
