#!/usr/bin/env python3
"""Regenerates /verif/MANIFEST.json from the tables below (run after adding a check)."""
import json, os, subprocess
VERIF = os.path.dirname(os.path.dirname(os.path.abspath(__file__)))

HIST = ("TLC simulation of spec/MCRegistry.tla generates request programs; the harness replays each on the real server "
        "(mem, dir, mem-over-dir) logging request, response and the state observed through the API after every request; "
        "TLC validates every trace against spec/Registry.tla via spec/TraceRegistry.tla (clauses of this property only); "
        "the model-level theorems are checked exhaustively on a small universe (MCRegistry, MCSpecAll).")
BASE = "observer (harness/observe.go) byte/hash comparisons, TLC, Go toolchain; bounded universes; generator guards G1-G3 (spec/MCRegistry.tla) exclude request patterns whose outcome the properties do not pin"

CLAIMED = {
 "C01": ("model_checking", HIST + " Clauses: every served body hashes to the digest it was served under (measured with the real hash for sha256/384/512), mismatching uploads/manifest pushes are refused and add nothing.", "6 C01"),
 "C02": ("model_checking", HIST + " Clauses: after every step every acknowledged blob/manifest/tag reads back byte-identical (GET and HEAD, by digest and tag, ranges), with media type, length and digest header; over-limit manifests are refused.", "6 C02"),
 "C03": ("model_checking", HIST + " Clauses: tag resolution equals the model map after every step, tags/list is exactly the sorted tag set, n/last pages are exact, open classes of n give a valid listing.", "6 C03"),
 "C04": ("model_checking", HIST + " Clauses: a manifest push is acknowledged iff ManAccept holds; after a refusal blobs, manifests, tags, tag list and every referrers list are what the model says (unchanged).", "6 C04"),
 "C05": ("model_checking", HIST + " GC runs only through the verif hook at model-chosen points (also between the uploads and the manifest of one image), blob ages are set with a hook; all 16 combinations of Untagged/ReferrersDangling/ReferrersWithSubj/GracePeriod. Clause gc.safe: the observed state after a collection contains MustBlobs/MustAddr of the declarative policy (spec/Registry.tla), adds nothing, keeps tags and media types.", "6 C05"),
 "C06": ("model_checking", HIST + " Clauses gc.exact (once nothing is young the observed state is inside MayBlobs/MayMan: exactly the garbage is gone), gc.idem (a second collection changes nothing), and store wide passes (GCPass) over healthy repositories next to corrupt / phantom / removed ones, repeated so that Go's random map order covers the visiting orders.", "6 C06"),
 "C07": ("model_checking", HIST + " Clauses: for every catalogue subject, unfiltered and per artifactType, cold and cache-warm, the listed digests equal the derived Referrers set, each once, with exact descriptor fields; filter announced.", "6 C07"),
 "C10": ("model_checking", HIST + " On the directory store the repository directory is scanned after every request (oci-layout, parsed index.json, every file under blobs/ re-hashed, _uploads, stray files) and the clauses disk.layout / disk.index / disk.files compare it with the model state; histories restart the server and collect at model-chosen points (nested repository names, sha256/384/512); mem, dir and mem-over-dir are validated against the same deterministic model.", "6 C10"),
 "C14": ("model_checking", HIST + " Histories populate a directory, then reconfigure the server (Reconf: read-only dir, memory over the directory, push/delete/blob-delete switched off) and send every request class, collections, passes and restarts; a digest over names, modes, sizes, contents and mtimes of the whole root tree must not change while the store is read-only or a memory store (ro.frozen); requests of a switched-off class are 4xx and leave the full observation unchanged (ro.refused). Also pre-existing foreign directories (testdata/testrepo with fallback-tag referrers to convert, testdata/corrupt).", "6 C14"),
 "C16": ("model_checking", HIST + " Three repositories with nested / prefix names are observed completely after every request (any leak fails the sync clauses of another repository), sessions are used against other repositories, mounts name present / absent / unknown sources and sources outside the grammar (../victim); the root lives in a sandbox next to sentinel layouts holding the catalogue blobs and a digest of everything outside the root must never change (confined).", "6 C16"),
 "C15": ("model_checking", "spec/Routing.tla defines the request grammar as classes (method x endpoint shape x repository name class x reference/digest/session class x query parameter classes x header classes x body class, about 20 000 classes) and, per class and store kind, the set of allowed statuses and error codes; TLC (spec/MCRouting.tla) enumerates every class as a state and checks the table is total and only allows registered codes and no 5xx; the harness concretises every class (seeded variants: boundary integers, malformed base64/JSON/digests, dot segments, over-long names) against a server holding a fixed state (tagged image, paged referrers, open sessions) on mem, dir, mem-over-dir and read-only dir with recover() around ServeHTTP; TLC validates every (class, answer) pair against the table (spec/TraceRouting.tla): no panic, no 5xx, status in the allowed set, error body is an OCI error document with an allowed registered code, names outside the grammar create nothing.", "6 C15"),
 "C19": ("model_checking", "spec/Config.tla is the table of documented effects: every combination of push/delete/blob-delete/referrer/read-only (true, false, unset) x store type x warnings x rate limit is one TLC state (2916) and ExactEffect (a switch changes only the classes it governs) is checked on the table; the harness answers ten request classes per combination through olareg.New (library) and through the built binary `olareg serve --flags` over loopback TCP (flag to field wiring), checks defaults (unset and all 512 explicit boolean masks through SetDefaults), persistence per store type, SIGTERM (exit 0, storage re-opened); TLC validates all answers against the table (spec/TraceConfig.tla). The rate limiter is modelled in spec/RateLimit.tla (RateBound, Independent exhaustive), generated (address, tick) sequences (spec/MCRateLimit.tla) are replayed in real time and validated by spec/TraceRateLimit.tla.", "6 C19"),
 "C20": ("model_checking", "spec/Cache.tla models internal/cache (Set/Get/Delete/DeleteAll, the age timer = pruneAge, spawned pruneCount runs, failing cleanups) and TLC checks CleanupBeforeRemoval, FailedKept, NoEarlyExpiry, LRUFirst, BoundedAtRest exhaustively for small constants (incl. Count 0/1, Age 0); behaviours generated by tlc -simulate (spec/MCCache.tla) are replayed by an in-package driver injected with go test -overlay on a copy of cache.go rewritten at check time onto a virtual clock (time.Now, time.AfterFunc, *time.Timer, go c.pruneCount); after every operation membership, cleanup calls with their result, timer state and waiting prunes are logged and TLC validates the trace against spec/TraceCache.tla.", "6 C20"),
 "C18": ("model_checking", "spec/IndexImpl.tla transcribes AddDesc/RmDesc/AddChildren/GetDesc/GetByAnnotation statement by statement; TLC checks all C18 invariants and action properties on the closure (every operation sequence of any length) of small universes; behaviours of the model (tlc -simulate of spec/MCIndex.tla, with the predicted list after each step) and Go-generated random sequences are applied to the real types.Index; the projection through the public methods after every step, including an earlier Copy, is validated by TLC against the abstract index model spec/TraceIndex.tla (verdict); list differences to IndexImpl are reported as DRIFT.", "6 C18"),
 "C08": ("model_checking", HIST + " Clauses: PATCH/PUT accepted iff offsets and state token are in order, status query exact, completion stores the concatenation, sessions exist exactly while the model says so (hook, no LRU refresh), per repository.", "6 C08"),
}

NOT_APPLICABLE = {
 "C13": "data races are relations between individual memory accesses under the Go memory model, below anything a TLA+ specification of actions and abstract state can observe; the deciding tool is a race detector (different technique)",
}
PENDING = "check under construction in this round (specification and harness being extended); not claimed until it runs clean on the unchanged tree"

def main():
    props = [json.loads(l)["id"] for l in open(os.path.join(VERIF, "properties.jsonl"))]
    commits = subprocess.check_output(["git", "-C", "/repo", "log", "--format=%h %s"]).decode().splitlines()
    hooks = [c.split()[0] for c in commits if c.split(" ", 1)[1].startswith("verif:")]
    checks = []
    for pid in props:
        if pid not in CLAIMED:
            continue
        level, text, ref = CLAIMED[pid]
        checks.append({
            "property_id": pid,
            "quick_cmd": "./check %s --tier quick" % pid,
            "thorough_cmd": "./check %s --tier thorough" % pid,
            "evidence_file": "/verif/evidence/%s.json" % pid,
            "replay_cmd_template": "./check %s --replay {path}" % pid,
            "engine": "tlc-trace-validation",
            "level_claimed": {"category": level, "text": text, "design_ref": "DESIGN.md section " + ref},
            "level_note": BASE,
            "technique": "TLA+ model checking (TLC) + trace validation of real executions against the TLA+ specification",
        })
    na = []
    for pid in props:
        if pid in CLAIMED:
            continue
        na.append({"property_id": pid, "reason": NOT_APPLICABLE.get(pid, PENDING)})
    m = {
        "version": 1,
        "setup_cmd": "./check --setup",
        "hooks": {
            "guard": "verif (Go build tag)",
            "enable": "go build -tags verif; harness module /verif/harness with replace github.com/olareg/olareg => /repo (VERIF_REPO)",
            "baseline_off_cmd": "cd /repo && GOFLAGS=-mod=mod go test -json -vet=off -count=1 -timeout 25m ./...",
            "source_commits": hooks,
            "add_only": True,
        },
        "engines": [
            {"name": "tlc-trace-validation", "path": "/verif/check", "serves_properties": sorted(CLAIMED),
             "kind_free_text": "TLA+ specifications in /verif/spec checked with TLC; Go harness in /verif/harness replays TLC-generated behaviours on the real code and records traces that TLC validates against the specification"},
        ],
        "checks": checks,
        "not_applicable": na,
        "notes": "fix: commits and known findings are listed in /verif/known_findings.json; DESIGN.md section 8 maps findings to checks",
    }
    with open(os.path.join(VERIF, "MANIFEST.json"), "w") as f:
        json.dump(m, f, indent=1)
        f.write("\n")

if __name__ == "__main__":
    main()
