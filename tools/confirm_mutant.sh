#!/bin/bash
# confirm_mutant.sh <worktree> <outdir> <mid>: confirms a seeded change independently:
#  builds + full existing suite pass with it, demo fails with it, demo passes without it. Prints CONFIRMED or the reason.
wt=$1; od=$2; m=$3
export GOFLAGS=-mod=mod GOPROXY=off GOSUMDB=off GOTOOLCHAIN=local
cd "$wt" || exit 2
git checkout -q -- . ; git checkout -q --detach "$(git -C /repo rev-parse HEAD)" || exit 2
git checkout -q -- . ; git clean -fdq
demo=$(python3 -c "import json;print([x for x in json.load(open('$od/meta.json')) if x['id']=='$m'][0]['demo'])")
ddir=$(python3 -c "import json;print([x for x in json.load(open('$od/meta.json')) if x['id']=='$m'][0]['demo_dir'])")
dcmd=$(python3 -c "import json;print([x for x in json.load(open('$od/meta.json')) if x['id']=='$m'][0]['demo_cmd'])")
git apply "$od/$m.diff" || { echo "NOT-CONFIRMED: patch does not apply"; exit 1; }
go build ./... || { echo "NOT-CONFIRMED: does not build"; git checkout -q -- .; exit 1; }
ok=0
for try in 1 2 3; do
  if go test -vet=off -count=1 ./... > /tmp/confirm.$$.log 2>&1; then ok=1; break; fi
  grep -E "^--- FAIL|^\s+--- FAIL" /tmp/confirm.$$.log | grep -v "Garbage_Collect\|TestServer (\|TestServer/Dir (" > /tmp/confirm.$$.f; [ -s /tmp/confirm.$$.f ] && break
done
[ $ok = 1 ] || { echo "NOT-CONFIRMED: existing suite fails with the change:"; cat /tmp/confirm.$$.f | head -5; git checkout -q -- .; rm -f /tmp/confirm.$$.*; exit 1; }
cp "$od/$demo" "$ddir/zz_${m}_demo_test.go"
if $dcmd > /tmp/confirm.$$.log 2>&1; then echo "NOT-CONFIRMED: demo passes WITH the change"; git checkout -q -- .; git clean -fdq; exit 1; fi
git checkout -q -- .
if ! $dcmd > /tmp/confirm.$$.log 2>&1; then echo "NOT-CONFIRMED: demo fails WITHOUT the change"; tail -5 /tmp/confirm.$$.log; git clean -fdq; exit 1; fi
git clean -fdq; rm -f /tmp/confirm.$$.*
echo "CONFIRMED $m"
