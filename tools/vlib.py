"""Shared machinery of /verif/check: building the harness from the current tree, running TLC
(model checking, simulation as generator, trace validation), known findings, evidence files."""
import json
import os
import re
import shutil
import subprocess
import sys
import tempfile
import time

VERIF = os.path.dirname(os.path.dirname(os.path.abspath(__file__)))
REPO = os.environ.get("VERIF_REPO", "/repo")
SPEC = os.path.join(VERIF, "spec")
HARNESS = os.path.join(VERIF, "harness")
EVID = os.environ.get("VERIF_EVIDENCE_DIR") or os.path.join(VERIF, "evidence")
WORKERS = int(os.environ.get("VERIF_WORKERS", "0")) or min(16, os.cpu_count() or 4)

GOENV = dict(os.environ, GOFLAGS="-mod=mod", GOPROXY="off", GOSUMDB="off", GOTOOLCHAIN="local")


class Inconclusive(Exception):
    """The checker itself could not run to a verdict (exit 2): never a violation."""


def log(*a):
    print("[check]", *a, file=sys.stderr, flush=True)


class Work:
    """A scratch directory outside /repo and /verif, removed on exit."""

    def __init__(self, tag):
        base = os.environ.get("VERIF_TMP") or tempfile.gettempdir()
        self.dir = tempfile.mkdtemp(prefix="verif-%s-" % tag, dir=base)

    def path(self, *p):
        return os.path.join(self.dir, *p)

    def sub(self, name):
        d = self.path(name)
        os.makedirs(d, exist_ok=True)
        return d

    def cleanup(self):
        if os.environ.get("VERIF_KEEP"):
            log("keeping", self.dir)
            return
        shutil.rmtree(self.dir, ignore_errors=True)


def run(cmd, cwd=None, env=None, timeout=None, check=True, stdin=None):
    t0 = time.time()
    try:
        p = subprocess.run(cmd, cwd=cwd, env=env, timeout=timeout, input=stdin,
                           stdout=subprocess.PIPE, stderr=subprocess.STDOUT, text=True, errors="replace")
    except subprocess.TimeoutExpired as ex:
        raise Inconclusive("timeout after %ss: %s" % (timeout, " ".join(cmd[:6])))
    if check and p.returncode != 0:
        raise Inconclusive("command failed (%d): %s\n%s" % (p.returncode, " ".join(cmd[:8]), p.stdout[-4000:]))
    return p.returncode, p.stdout, time.time() - t0


def build_harness(work, tags="verif", overlay=None):
    """Builds vharness from the CURRENT working tree of REPO (replace directive -> REPO)."""
    out = work.path("vharness")
    modfile = work.path("harness.mod")
    with open(os.path.join(HARNESS, "go.mod")) as f:
        mod = f.read()
    mod = re.sub(r"replace github.com/olareg/olareg => .*", "replace github.com/olareg/olareg => " + REPO, mod)
    with open(modfile, "w") as f:
        f.write(mod)
    shutil.copy(os.path.join(REPO, "go.sum"), work.path("harness.sum"))
    cmd = ["go", "build", "-modfile", modfile, "-tags", tags, "-o", out]
    if overlay:
        cmd += ["-overlay", overlay]
    cmd += ["."]
    rc, outp, dt = run(cmd, cwd=HARNESS, env=GOENV, timeout=600, check=False)
    if rc != 0:
        raise Inconclusive("harness does not build against %s:\n%s" % (REPO, outp[-3000:]))
    return out


# --------------------------------------------------------------------------- TLC

RE_STATES = re.compile(r"(\d+) states generated, (\d+) distinct states found")
RE_DEPTH = re.compile(r"The depth of the complete state graph search is (\d+)")


def tlc(work, name, module, cfg_text, files=None, simulate=None, depth=None, seed=None, workers=1,
        timeout=600, extra=None, coverage=False, java_opts=None):
    """Runs TLC on a copy of the spec directory. Returns dict(out, rc, states, distinct, depth, wall)."""
    d = work.sub("tlc-" + name)
    for fn in os.listdir(SPEC):
        if fn.endswith(".tla"):
            shutil.copy(os.path.join(SPEC, fn), d)
    for src, dst in (files or {}).items():
        if os.path.abspath(src) != os.path.join(d, dst):
            try:
                os.link(src, os.path.join(d, dst))
            except OSError:
                shutil.copy(src, os.path.join(d, dst))
    with open(os.path.join(d, module + ".cfg"), "w") as f:
        f.write(cfg_text)
    cmd = ["tlc", "-workers", str(workers), "-metadir", os.path.join(d, "meta")]
    if simulate:
        cmd += ["-simulate", simulate]
    if depth:
        cmd += ["-depth", str(depth)]
    if seed is not None:
        cmd += ["-seed", str(seed)]
    if coverage:
        cmd += ["-coverage", "1"]
    cmd += (extra or [])
    cmd += ["-config", module + ".cfg", module + ".tla"]
    env = dict(os.environ)
    # (TLC's own scratch directories go below the work directory, which is removed at the end, not to /tmp)
    jt = work.sub("jtmp")
    env["JAVA_TOOL_OPTIONS"] = ((java_opts + " ") if java_opts else "") + "-Djava.io.tmpdir=" + jt
    rc, out, dt = run(cmd, cwd=d, env=env, timeout=timeout, check=False)
    res = {"out": out, "rc": rc, "wall": dt, "states": 0, "distinct": 0, "depth": 0, "dir": d}
    m = None
    for m in RE_STATES.finditer(out):
        pass
    if m:
        res["states"], res["distinct"] = int(m.group(1)), int(m.group(2))
    m = RE_DEPTH.search(out)
    if m:
        res["depth"] = int(m.group(1))
    shutil.rmtree(os.path.join(d, "meta"), ignore_errors=True)
    return res


def tlc_ok(res, what):
    """An exhaustive / simulation run of a MODEL must end without error; otherwise the checker is broken (exit 2)."""
    out = res["out"]
    if "Model checking completed. No error has been found." in out or ("Finished in" in out and "Error:" not in out and res["rc"] == 0):
        return
    raise Inconclusive("TLC run '%s' did not complete cleanly (rc=%s):\n%s" % (what, res["rc"], out[-3000:]))


RE_PRINT = re.compile(r'^<<"(\w+)", (".*")>>$')


def tlc_prints(out, key):
    """Collects the JSON payloads of PrintT(<<key, ToJson(..)>>) lines."""
    vals = []
    for line in out.splitlines():
        m = RE_PRINT.match(line.strip())
        if m and m.group(1) == key:
            vals.append(json.loads(json.loads(m.group(2))))
    return vals


def cfg_set(xs):
    return "{" + ", ".join('"%s"' % x for x in sorted(xs)) + "}"


# --------------------------------------------------------------------------- generation, execution, validation

def catalogue(work, vh, name, contents, algs, seed, cfg=None, ntags=3, nrepos=2, reconf=None):
    out = work.path("cat-%s.json" % name)
    cmd = [vh, "catalogue", "-contents", ",".join(contents), "-algs", ",".join(algs), "-seed", str(seed), "-o", out,
           "-ntags", str(ntags), "-nrepos", str(nrepos)]
    if cfg:
        cmd += ["-cfg", json.dumps(cfg)]
    if reconf:
        cmd += ["-reconf", json.dumps(reconf)]
    run(cmd, timeout=60)
    return out


def generate(work, name, catfile, profile, depth, num, seed, known_open, timeout=300):
    """TLC simulation of MCRegistry as a generator: returns a list of operation lists."""
    cfg = """SPECIFICATION MCSpec
CONSTANT Profile = "%s"
CONSTANT Depth = %d
CONSTANT KnownOpen = %s
INVARIANT Emit
INVARIANT TypeOK
CHECK_DEADLOCK FALSE
""" % (profile, depth, cfg_set(known_open))
    res = tlc(work, "gen-" + name, "MCRegistry", cfg, files={catfile: "cat.json"},
              simulate="num=%d" % num, depth=depth + 2, seed=seed, workers=1, timeout=timeout)
    progs = tlc_prints(res["out"], "PROG")
    if "Error:" in res["out"] or not progs:
        raise Inconclusive("generator '%s' failed:\n%s" % (name, res["out"][-3000:]))
    # dedupe, keep order
    seen, outp = set(), []
    for p in progs:
        k = json.dumps(p, sort_keys=True)
        if k not in seen:
            seen.add(k)
            outp.append(p)
    return outp, res


def write_programs(path, programs):
    with open(path, "w") as f:
        for p in programs:
            f.write(json.dumps(p) + "\n")


def execute(work, vh, name, programs, stores, obs, seed, timeout=900):
    pf = work.path("progs-%s.ndjson" % name)
    tf = work.path("trace-%s.ndjson" % name)
    write_programs(pf, programs)
    rc, out, dt = run([vh, "run", "-programs", pf, "-o", tf, "-stores", ",".join(stores), "-obs", ",".join(obs),
                       "-seed", str(seed), "-repo", REPO], timeout=timeout, check=False, env=dict(os.environ, TMPDIR=work.sub("roots")))
    if rc != 0:
        raise Inconclusive("harness run failed (%d):\n%s" % (rc, out[-3000:]))
    m = re.search(r"(\d+) programs, (\d+) events", out)
    return tf, (int(m.group(2)) if m else 0), dt


def validate(work, name, tracefile, focus, module="TraceRegistry", timeout=900, consts=""):
    cfg = """SPECIFICATION TraceSpec
CONSTANT Focus = %s
%sINVARIANT Report
POSTCONDITION Consumed
CHECK_DEADLOCK FALSE
""" % (cfg_set(focus), consts)
    res = tlc(work, "val-" + name, module, cfg, files={tracefile: "trace.ndjson"}, workers=1, timeout=timeout,
              java_opts="-Xss64m")
    verdicts = tlc_prints(res["out"], "VERDICT")
    if "Model checking completed. No error has been found." not in res["out"] or len(verdicts) != 1:
        raise Inconclusive("trace validation '%s' did not run to the end of the trace:\n%s" % (name, res["out"][-4000:]))
    v = verdicts[0]
    v["tlc"] = {"states": res["states"], "distinct": res["distinct"], "wall": res["wall"]}
    # drift clauses (the code differs from an implementation-shaped model) are reported, never a verdict
    v["drift"] = [f for f in v["fails"] if "gc.impl" in f["clauses"]]
    keep = []
    for f in v["fails"]:
        c = [x for x in f["clauses"] if x != "gc.impl"]
        if c:
            keep.append(dict(f, clauses=c))
    v["fails"] = keep
    return v


# --------------------------------------------------------------------------- known findings

def load_known():
    p = os.path.join(VERIF, "known_findings.json")
    if not os.path.exists(p):
        return {"open": [], "fixed": []}
    with open(p) as f:
        return json.load(f)


def known_open_names(prop=None):
    k = load_known()
    return sorted({e["name"] for e in k.get("open", []) if prop is None or prop in e.get("properties", [e.get("property")])})


# --------------------------------------------------------------------------- evidence

def write_evidence(prop, tier, seed, level, coverage, assumptions, wall, violations):
    os.makedirs(EVID, exist_ok=True)
    ev = {"property_id": prop, "tier": tier, "seed": seed, "level": level, "coverage": coverage,
          "assumptions": assumptions, "wall_s": round(wall, 2), "violations": violations}
    tmp = os.path.join(EVID, prop + ".json.tmp")
    with open(tmp, "w") as f:
        json.dump(ev, f, indent=1)
        f.write("\n")
    os.replace(tmp, os.path.join(EVID, prop + ".json"))
    return ev


def save_replay(prop, name, payload):
    d = os.path.join(EVID, "replays")
    os.makedirs(d, exist_ok=True)
    p = os.path.join(d, "%s-%s.json" % (prop, name))
    with open(p, "w") as f:
        json.dump(payload, f, indent=1)
        f.write("\n")
    return p
