"""Per-property checks. Engine H ("histories"): TLC generates request programs from MCRegistry (simulation),
the harness replays them against the real server on every store kind, TraceRegistry validates the recorded
traces clause by clause; MCRegistry is also checked exhaustively for the model-level theorems."""
import json
import os
import shutil
import time

import vlib
from vlib import Inconclusive, log

CHECKS = {}

ASSUME_COMMON = [
    "the observer (harness/observe.go) compares bytes, hashes and listings correctly; TLC and the Go toolchain are sound",
    "requests are sent through Server.ServeHTTP with httptest recorders, exactly as the repository's own tests do",
    "garbage collection runs only when the harness asks for it (Frequency < 0) through the verif-tagged hooks",
]


def setup():
    work = vlib.Work("setup")
    try:
        vlib.build_harness(work)
        for fn in sorted(os.listdir(vlib.SPEC)):
            if fn.endswith(".tla"):
                rc, out, _ = vlib.run(["tla-sany", fn], cwd=vlib.SPEC, timeout=120, check=False)
                if "Semantic errors" in out or "***Parse Error***" in out or rc != 0:
                    print(out[-2000:])
                    return 2
        print("setup ok")
        return 0
    finally:
        work.cleanup()


# --------------------------------------------------------------------------- engine H

def mk_programs(sc, ops_lists):
    progs = []
    for i, ops in enumerate(ops_lists):
        progs.append({"id": "%s-%d" % (sc["name"], i), "cfg": sc_cfg(sc), "contents": sc["contents"], "algs": sc["algs"],
                      "ntags": sc.get("ntags", 3), "repos": sc.get("repos", REPO_NAMES)[:sc.get("nrepos", 2)], "seed": i,
                      "tagstyle": sc.get("tagstyle", 0), "pre": sc.get("pre", ""), "sentinel": sc.get("sentinel", False), "ops": ops})
    return progs


REPO_NAMES = ["proj/app", "proj", "other"]

DEFAULT_CFG = {"store": "dir", "push": True, "delete": True, "blobDelete": True, "referrers": True, "readOnly": False,
               "untagged": False, "dangling": False, "withSubj": False, "emptyRepo": True, "grace": True,
               "uploadMax": 0, "manLimit": 3000, "refLimit": 0, "rateLimit": 0, "refLimitCls": "unl"}


def sc_cfg(sc):
    c = dict(DEFAULT_CFG)
    c.update(sc.get("cfg", {}))
    return c


def model_check(work, prop, sc, depth, timeout=900):
    """Exhaustive check of the model-level theorems on a small universe."""
    vh = work.path("vharness")
    cat = vlib.catalogue(work, vh, "mc-" + sc["name"], sc["mc_contents"], sc["algs"], 1, cfg=sc_cfg(sc),
                         ntags=sc.get("mc_ntags", 2), nrepos=sc.get("nrepos", 2), reconf=[dict(sc_cfg(sc), **r) for r in sc.get("reconf", [])])
    cfg = """SPECIFICATION MCSpecAll
CONSTANT Profile = "%s"
CONSTANT Depth = %d
CONSTANT KnownOpen = %s
INVARIANT TypeOK
INVARIANT ManifestsAreManifests
INVARIANT SessionsWellFormed
PROPERTY RefusedChangesNothing
PROPERTY Persistence
PROPERTY TagSemantics
PROPERTY Isolation
VIEW View
CHECK_DEADLOCK FALSE
""" % (sc["profile"], depth, vlib.cfg_set(vlib.known_open_names()))
    res = vlib.tlc(work, "mc-" + sc["name"], "MCRegistry", cfg, files={cat: "cat.json"}, workers=vlib.WORKERS, timeout=timeout)
    vlib.tlc_ok(res, "MCRegistry exhaustive " + sc["name"])
    return res


def run_static(work, vh, prop, sc, tier, seed, focus):
    """A scenario whose programs are given (not generated): grouped by the stores they run on."""
    programs = sc["static_programs"](seed)
    allfails, events, checked = [], 0, 0
    groups = {}
    for p in programs:
        groups.setdefault(tuple(p.pop("stores")), []).append(p)
    t0 = time.time()
    for stores, ps in groups.items():
        tf, ev, dt = vlib.execute(work, vh, sc["name"] + "-" + "".join(stores), ps, list(stores), sc["obs"], seed)
        v = vlib.validate(work, sc["name"] + "-" + "".join(stores), tf, sc.get("focus", focus))
        allfails += v["fails"]
        events += ev
        checked += v["stats"]["checked"]
        for p in ps:
            p["nstores"] = len(stores)
    log("scenario %s: %d static programs, %d events, %d failing traces (%.1fs)" % (sc["name"], len(programs), events, len(allfails), time.time() - t0))
    return programs, events, {"fails": allfails, "stats": {"checked": checked}}


def run_scenario(work, vh, prop, sc, tier, seed, focus):
    if "static_programs" in sc:
        return run_static(work, vh, prop, sc, tier, seed, focus)
    num = sc["num"][0 if tier == "quick" else 1]
    depth = sc["depth"][0 if tier == "quick" else 1]
    cat = vlib.catalogue(work, vh, sc["name"], sc["contents"], sc["algs"], seed, cfg=sc_cfg(sc),
                         ntags=sc.get("ntags", 3), nrepos=sc.get("nrepos", 2), reconf=[dict(sc_cfg(sc), **r) for r in sc.get("reconf", [])])
    ops_lists, gen = vlib.generate(work, sc["name"], cat, sc["profile"], depth, num, seed, vlib.known_open_names())
    programs = mk_programs(sc, ops_lists)
    xvh = sc["harness"](work) if "harness" in sc else vh       # a scenario may need its own build (overlay)
    tf, events, dt = vlib.execute(work, xvh, sc["name"], programs, sc["stores"], sc["obs"], seed)
    v = vlib.validate(work, sc["name"], tf, sc.get("focus", focus))
    log("scenario %s: %d programs, %d events on %s, %d failing traces (gen %.1fs, exec %.1fs, tlc %.1fs)" % (
        sc["name"], len(programs), events, ",".join(sc["stores"]), len(v["fails"]), gen["wall"], dt, v["tlc"]["wall"]))
    if v.get("drift"):
        print("DRIFT property=%s: scenario %s, %d collections of the directory store kept other blobs than spec/GCImpl.tla predicts (e.g. trace %s event %d): the model needs to follow the code; not a violation" % (
            prop, sc["name"], len(v["drift"]), v["drift"][0]["trace"], v["drift"][0]["i"]))
    try:
        os.remove(tf)
    except OSError:
        pass
    return programs, events, v


def failure_replay(prop, sc, programs, f, seed):
    pid, store = f["trace"].rsplit("@", 1)
    prog = next(p for p in programs if p["id"] == pid)
    payload = {"property": prop, "kind": "history", "scenario": sc["name"], "store": store, "obs": sc["obs"], "seed": seed,
               "failure": f, "program": prog}
    return vlib.save_replay(prop, "%s-%s" % (pid, store), payload)


def run_known(work, vh, prop, seed, focus):
    """Executes the dedicated program of every open finding of this property. Returns (lines, violations)."""
    lines, viols, notes = [], [], []
    for kf in vlib.load_known().get("open", []):
        if kf.get("property") != prop or kf.get("kind", "history") != "history":
            continue
        prog = kf["program"]
        tf, events, dt = vlib.execute(work, vh, "kf-" + kf["name"], [prog], kf["stores"], kf.get("obs", ["refs", "sess"]), seed)
        v = vlib.validate(work, "kf-" + kf["name"], tf, focus)
        exp = kf["expect"]
        hit = [f for f in v["fails"] if f["i"] == exp["i"] and set(exp["clauses"]) <= set(f["clauses"])]
        other = [f for f in v["fails"] if f not in hit]
        if hit:
            lines.append("KNOWN-FINDING: property=%s %s" % (prop, kf["what"]))
        else:
            notes.append("finding %s no longer reproduces" % kf["name"])
        for f in other:
            viols.append(("kf-" + kf["name"], prog, f))
    # the dedicated programs of repaired findings stay as regression programs: every failing clause is a violation
    for kf in vlib.load_known().get("regress", []):
        if kf.get("property") != prop:
            continue
        prog = kf["program"]
        tf, events, dt = vlib.execute(work, vh, "rg-" + kf["name"], [prog], kf["stores"], kf.get("obs", ["refs", "sess"]), seed)
        v = vlib.validate(work, "rg-" + kf["name"], tf, focus)
        notes.append("regression program of the repaired finding %s (%s): %d events, %d failing" % (kf["name"], kf.get("fixed_by", ""), events, len(v["fails"])))
        for f in v["fails"]:
            viols.append(("rg-" + kf["name"], prog, f))
    return lines, viols, notes


def histories(prop, tier, seed, work, scenarios, level_text, rule, nontrivial_ops, extras=()):
    t0 = time.time()
    vh = vlib.build_harness(work)
    focus = {prop}
    total_events = total_traces = checked = 0
    violations = []
    samples = []
    nontriv = set()
    mc_states = mc_trans = 0
    mc_note = []
    for sc in scenarios:
        if sc.get("mc_contents"):
            d = sc["mc_depth"][0 if tier == "quick" else 1]
            res = model_check(work, prop, sc, d)
            mc_states += res["distinct"]
            mc_trans += res["states"]
            mc_note.append("%s: depth<=%d, %d distinct states, %d transitions, %.0fs" % (sc["name"], d, res["distinct"], res["states"], res["wall"]))
        programs, events, v = run_scenario(work, vh, prop, sc, tier, seed, focus)
        total_events += events
        total_traces += sum(p.get("nstores", len(sc.get("stores", [1]))) for p in programs)
        checked += v["stats"]["checked"]
        for p in programs:
            key = json.dumps(p["ops"], sort_keys=True)
            if any(o["op"] in nontrivial_ops for o in p["ops"]):
                nontriv.add(key)
        if programs and len(samples) < 3:
            samples.append({"scenario": sc["name"], "stores": sc.get("stores", "per program"), "program": programs[0]["ops"][:12]})
        for f in v["fails"]:
            path = failure_replay(prop, sc, programs, f, seed)
            violations.append((path, f))
    extra_notes = []
    for fn in extras:
        x = fn(work, prop, tier, seed)
        violations += x["violations"]
        total_events += x["events"]
        checked += x["events"]
        total_traces += x["traces"]
        extra_notes.append(x["note"])
    klines, kviols, knotes = run_known(work, vh, prop, seed, focus)
    for name, prog, f in kviols:
        path = vlib.save_replay(prop, name, {"property": prop, "kind": "history", "scenario": name, "failure": f, "program": prog,
                                            "store": f["trace"].rsplit("@", 1)[1], "obs": ["refs", "sess"], "seed": seed})
        violations.append((path, f))
    for ln in klines:
        print(ln)
    cov = {
        "states": mc_states, "transitions": mc_trans,
        "traces_validated_against_impl": total_traces,
        "trace_events": total_events, "trace_events_checked": checked,
        "evaluations": total_traces, "distinct_nontrivial": len(nontriv),
        "rule": rule,
        "samples": samples,
        "model_checking": mc_note,
        "known_findings_reported": klines, "notes": knotes + extra_notes,
        "exhaustive": False,
        "failures": [f for _, f in violations][:10],
    }
    vlib.write_evidence(prop, tier, seed, "model_checking", cov, ASSUME_COMMON, time.time() - t0, len(violations))
    if violations:
        for path, f in violations[:5]:
            print("VIOLATION property=%s replay=%s" % (prop, path))
            log("  trace %s event %d (%s): clauses %s" % (f["trace"], f["i"], f["op"], ",".join(f["clauses"])))
        return 1
    return 0


def replay(prop, path, work, seed):
    with open(path) as f:
        rp = json.load(f)
    if rp.get("kind") == "convert":
        return replay_convert(prop, path, rp, work, seed)
    if rp.get("kind") == "crash":
        return replay_crash(prop, path, rp, work, seed)
    if rp.get("kind") == "conc":
        return replay_conc(prop, path, rp, work, seed)
    if rp.get("kind") == "fault":
        return replay_fault(prop, path, rp, work, seed)
    if rp.get("kind") == "locks":
        return replay_locks(prop, path, rp, work, seed)
    if rp.get("kind", "history") != "history":
        raise Inconclusive("replay kind %s not handled here" % rp.get("kind"))
    vh = vlib.build_harness(work)
    prog = rp["program"]
    if any(o.get("op") == "Tick" for o in prog["ops"]) or (prog.get("cfg") or {}).get("uploadMax", 0) > 0:
        vh = build_vclock(work)           # histories with expiry / eviction run on the virtual clock
    tf, events, dt = vlib.execute(work, vh, "replay", [rp["program"]], [rp["store"]], rp.get("obs", ["refs", "sess"]), rp.get("seed", seed))
    v = vlib.validate(work, "replay", tf, {prop})
    if v["fails"]:
        for f in v["fails"]:
            log("  trace %s event %d (%s): clauses %s" % (f["trace"], f["i"], f["op"], ",".join(f["clauses"])))
        print("VIOLATION property=%s replay=%s" % (prop, path))
        return 1
    print("replay passes: the trace is accepted")
    return 0


def replay_convert(prop, path, rp, work, seed):
    """Writes the one layout of the failure to disk again, on the stores of the property, and lets TLC judge it."""
    f = rp["failure"]
    lf = work.path("layout.ndjson")
    vlib.write_programs(lf, [f["layout"]])
    crash = prop == "C17"
    if crash:
        ovf, counts = rewrite_vfs(work)
        vh = vlib.build_harness(work, tags="verif vfs", overlay=ovf)
    else:
        vh = vlib.build_harness(work)
    v, counts, dt, tw = convert_run(work, vh, lf, "replay", 1, 0, "dir,memdir" if crash else "dirgc" if prop == "C06" else "dirro,memdir", crash, rp.get("seed", seed), prop)
    for x in v["fails"]:
        log("  %s, %s (fs call %d %s %s): clauses %s" % (x["store"], x["phase"], x["n"], x["fsop"], x["variant"], ",".join(sorted(x["clauses"]))))
    if v["fails"]:
        print("VIOLATION property=%s replay=%s" % (prop, path))
        return 1
    print("replay passes: the layout is converted as specified (%d events)" % counts[1])
    return 0


def replay_fault(prop, path, rp, work, seed):
    ovf, counts = rewrite_vfs(work)
    vhx = vlib.build_harness(work, tags="verif vfs", overlay=ovf)
    pf, tf = work.path("fault-replay.ndjson"), work.path("fault-replay-trace.ndjson")
    vlib.write_programs(pf, [rp["program"]])
    rc, out, dt = vlib.run([vhx, "fault", "-programs", pf, "-o", tf, "-seed", str(rp.get("seed", seed)), "-at", str(rp["fault_at_fs_call"])], timeout=3000, check=False,
                           env=dict(os.environ, TMPDIR=work.sub("roots")))
    if rc != 0:
        raise Inconclusive("fault harness failed:\n" + out[-3000:])
    v = vlib.validate(work, "fault-replay", tf, {"FAULT"})
    for f in v["fails"]:
        log("  trace %s event %d (%s): clauses %s" % (f["trace"], f["i"], f["op"], ",".join(f["clauses"])))
    if v["fails"]:
        print("VIOLATION property=%s replay=%s" % (prop, path))
        return 1
    print("replay passes: the history with the fault at file system call %d is accepted" % rp["fault_at_fs_call"])
    return 0


def replay_crash(prop, path, rp, work, seed):
    ovf, counts = rewrite_vfs(work)
    vhx = vlib.build_harness(work, tags="verif vfs", overlay=ovf)
    pf, tf = work.path("crash-replay.ndjson"), work.path("crash-replay-trace.ndjson")
    vlib.write_programs(pf, [rp["program"]])
    rc, out, dt = vlib.run([vhx, "crash", "-programs", pf, "-o", tf, "-seed", str(rp.get("seed", seed))], timeout=3000, check=False,
                           env=dict(os.environ, TMPDIR=work.sub("roots")))
    if rc != 0:
        raise Inconclusive("crash harness failed:\n" + out[-3000:])
    v = vlib.validate(work, "crash-replay", tf, {prop})
    known = {k["name"] for k in vlib.load_known().get("open", []) if k.get("property") == prop}
    bad = [f for f in v["fails"] if [c for c in f["clauses"] if ".kf-" not in c or c.split(".kf-", 1)[1] not in known]]
    for f in bad:
        log("  during event %d (%s): clauses %s" % (f["i"], f["op"], ",".join(f["clauses"])))
    if bad:
        print("VIOLATION property=%s replay=%s" % (prop, path))
        return 1
    print("replay passes: every crash image recovers as specified")
    return 0


# --------------------------------------------------------------------------- property tables

STORES3 = ["mem", "dir", "memdir"]


def fault_extras(scs):
    """Histories on the directory store during which exactly one mutating file system call of the store fails once (harness
    command `fault`, vfs overlay): returns an extras function for histories()."""
    def fn(work, prop, tier, seed):
        import re
        quick = tier == "quick"
        vh = vlib.build_harness(work)
        ovf, counts = rewrite_vfs(work)
        vhx = vlib.build_harness(work, tags="verif vfs", overlay=ovf)
        events = runs = 0
        violations, kinds = [], {}
        for sc in scs:
            num, depth = sc["num"][0 if quick else 1], sc["depth"][0 if quick else 1]
            cat = vlib.catalogue(work, vh, sc["name"], sc["contents"], sc["algs"], seed, cfg=sc_cfg(sc), nrepos=sc.get("nrepos", 1))
            ops_lists, gen = vlib.generate(work, sc["name"], cat, sc["profile"], depth, num, seed, vlib.known_open_names())
            programs = mk_programs(sc, ops_lists)
            pf, tf = work.path("fault-%s.ndjson" % sc["name"]), work.path("fault-trace-%s.ndjson" % sc["name"])
            vlib.write_programs(pf, programs)
            rc, out, dt = vlib.run([vhx, "fault", "-programs", pf, "-o", tf, "-seed", str(seed), "-perprog", str(6 if quick else 24)], timeout=3000, check=False,
                                   env=dict(os.environ, TMPDIR=work.sub("roots-fault")))
            m = re.search(r"(\d+) programs, (\d+) fs calls, (\d+) fault runs, (\d+) events, kinds (\{.*\})", out)
            if rc != 0 or not m:
                raise Inconclusive("fault harness failed:\n" + out[-3000:])
            if int(m.group(3)) < len(programs):
                raise Inconclusive("fault harness: only %s fault runs for %d programs" % (m.group(3), len(programs)))
            v = vlib.validate(work, "fault-" + sc["name"], tf, {"FAULT"})
            for kd, c in json.loads(m.group(5)).items():
                kinds[kd] = kinds.get(kd, 0) + c
            events += int(m.group(4))
            runs += int(m.group(3))
            log("fault scenario %s: %d programs, %s fs calls, %s fault runs, %s events, %d failing traces (exec %.1fs, tlc %.1fs)" % (
                sc["name"], len(programs), m.group(2), m.group(3), m.group(4), len(v["fails"]), dt, v["tlc"]["wall"]))
            for f in v["fails"]:
                pid = f["trace"].rsplit("@", 1)[0]
                base, k = pid.rsplit("-f", 1)
                prog = next(q for q in programs if q["id"] == base)
                path = vlib.save_replay(prop, "fault-%s" % pid, {"property": prop, "kind": "fault", "seed": seed, "fault_at_fs_call": int(k), "failure": f, "program": prog})
                violations.append((path, f))
            os.remove(tf)
        return {"violations": violations, "events": events, "traces": runs,
                "note": "%d histories on the directory store during which exactly one mutating file system call of the store (%s) failed once with EIO, at a seeded sample of the "
                        "calls of each history; the request that met the fault may answer anything, it is repeated once, the history goes on and ends with a restart; "
                        "TraceRegistry binds the state after the faulted request to the observation and judges it with fault.safe (nothing held is lost, nothing foreign appears), "
                        "integrity, disk.* and sess, everything after it strictly; faults met: %s" % (runs, ", ".join("%s %d" % kv for kv in sorted(counts.items()) if kv[1]), json.dumps(kinds, sort_keys=True))}
    return fn


def c02(prop, tier, seed, work):
    scs = [
        dict(name="oversize", static_programs=lambda seed: oversize_programs(seed), obs=[]),
        dict(name="push", profile="push", contents=["m1", "m2", "x1", "a1"], algs=["sha256"], depth=(14, 24), num=(40, 400),
             stores=STORES3, obs=["sess"], mc_contents=["m1", "a1"], mc_depth=(5, 6)),
        dict(name="push2", profile="push", contents=["m3", "x3", "m4", "m5", "x2"], algs=["sha256", "sha512"], depth=(18, 30), num=(25, 300),
             stores=STORES3, obs=["ranges"]),
        # content whose first upload is older than the grace period is pushed again, then the server restarts (the directory
        # store collects on Close): what was acknowledged is still there
        dict(name="pushage", profile="pushage", contents=["m1", "b3"], algs=["sha256"], depth=(18, 30), num=(25, 250),
             stores=["dir", "mem"], obs=[], nrepos=1),
    ]
    return histories(prop, tier, seed, work, scs,
                     "trace validation of TLC-generated histories against Registry + exhaustive model check",
                     "a history is non-trivial if it contains at least one manifest push; distinct = distinct operation sequences",
                     {"ManPut"}, extras=[fault_extras([
                         dict(name="pushF", profile="push", contents=["m1", "a1", "x1"], algs=["sha256"], depth=(10, 16), num=(12, 60), nrepos=1)])])


CHECKS["C02"] = c02


def c03(prop, tier, seed, work):
    scs = [
        dict(name="tags", profile="tags", contents=["m1", "m2", "x1"], algs=["sha256"], depth=(16, 30), num=(40, 400),
             stores=STORES3, obs=[], mc_contents=["m1", "m2"], mc_depth=(4, 5), ntags=3),
        dict(name="tags4", profile="tags", contents=["m1", "m2", "m3"], algs=["sha256"], depth=(20, 40), num=(20, 300),
             stores=["mem", "dir"], obs=[], ntags=4, tagstyle=1),
    ]
    return histories(prop, tier, seed, work, scs, "", "a history is non-trivial if it moves or deletes a tag (ManDel) after pushes; distinct = distinct operation sequences",
                     {"ManDel"})


CHECKS["C03"] = c03


def c01(prop, tier, seed, work):
    scs = [
        dict(name="upload", profile="upload", contents=["m1", "m2", "b0", "b4"], algs=["sha256", "sha512"], depth=(18, 30), num=(30, 300),
             stores=STORES3, obs=["sess"], mc_contents=["m1"], mc_depth=(4, 5)),
        dict(name="pull", profile="pull", contents=["m1", "m3", "x4", "x3"], algs=["sha256", "sha512"], depth=(20, 34), num=(20, 250),
             stores=STORES3, obs=[]),
        dict(name="upload384", profile="upload", contents=["m1", "b0"], algs=["sha256", "sha384", "sha512"], depth=(18, 30), num=(15, 200),
             stores=["mem", "dir"], obs=["sess"]),
    ]
    return histories(prop, tier, seed, work, scs, "", "a history is non-trivial if it completes at least one upload with PUT or pushes a manifest; distinct = distinct operation sequences",
                     {"UpPut", "ManPut"}, extras=[c01_sessconc])


# requests that meet on ONE upload session (setup s4: an open session that holds all of b4): the closing PUT (by the digest
# of the session's algorithm or of another one, which makes Verify rescan) racing with further chunks, status queries,
# cancellation and a second PUT.  No property pins the order the session sees them in, C01 pins what may be served afterwards.
SESS_EPISODES = [
    ("s4", [("UpPut", "b4", "sha512"), ("UpPatch", "b3")]), ("s4", [("UpPut", "b4", "sha256"), ("UpPatch", "b3")]),
    ("s4", [("UpPut", "b4", "sha256"), ("UpPatch", "b3"), ("UpPatch", "b3")]), ("s4", [("UpPut", "b4", "sha512"), ("UpPatch", "b3"), ("UpGet",)]),
    ("s4", [("UpPut", "b4", "sha256"), ("UpDel",)]), ("s4", [("UpPut", "b4", "sha256"), ("UpPut", "b4", "sha512")]),
    ("s4", [("UpPatch", "b3"), ("UpPatch", "b3"), ("UpDel",)]),
    ("s4", [("UpPut", "b4", "sha256"), ("UpPatch", "b3"), ("UpPatch", "b3"), ("UpPatch", "b3")]),
    ("s4", [("UpPut", "b4", "sha512"), ("UpPatch", "b3"), ("UpPatch", "b3"), ("UpPatch", "b3")]),
]


def c01_sessconc(work, prop, tier, seed):
    """C01 under concurrency: requests racing on one upload session, gated random interleavings of their store calls (Write,
    Verify, Close, Cancel of the session) and ungated bursts; TLC (TraceLin!ConcInteg) accepts a run iff everything served
    afterwards hashes to its digest and no request panicked or hung."""
    quick = tier == "quick"
    vh = vlib.build_harness(work)
    eps = [dict(free_episode(s, r), integ=True) for s, r in SESS_EPISODES]
    x = conc_run(work, vh, eps, "sess", "mem,dir", 6 if quick else 25, seed, burst=12 if quick else 60)
    log("session episodes: %d episodes, %d runs, %d rejected, %d hung (exec %.1fs, tlc %.1fs)" % (len(eps), x["runs"], len(x["rejected"]), x["hung"], x["exec"], x["tlc"]))
    # directed: the closing PUT stands before Close, the PATCH before Write, both are released (the second one 0 to 150
    # microseconds after the first): the chunk arrives while Close is inside its critical section (rename, session removal)
    directed = [dict(free_episode("s4", [("UpPut", "b4", alg), ("UpPatch", "b3")]), integ=True, order=[0, 0, 0, 0, 1, 1, 1, 200]) for alg in ("sha256", "sha512")]
    y = conc_run(work, vh, directed, "sessdir", "dir,mem", 250 if quick else 1500, seed)
    log("directed Close/Write races: %d runs, %d rejected, %d hung (exec %.1fs, tlc %.1fs)" % (y["runs"], len(y["rejected"]), y["hung"], y["exec"], y["tlc"]))
    for f in x["v"]["fails"] + y["v"]["fails"]:
        raise Inconclusive("the sequential setup of a session episode was not accepted: %s" % json.dumps(f)[:600])
    x["runs"] += y["runs"]
    x["v"]["stats"]["events"] += y["v"]["stats"]["events"]
    violations, seen = [], set()
    for e in x["rejected"] + y["rejected"]:
        ep = dict(e["episode"], burst=40, cold=e["cold"]) if e["burst"] else dict(e["episode"], order=e["played"])
        key = json.dumps([e["store"], e["burst"], e["episode"]["reqs"]], sort_keys=True)
        if key in seen:
            continue
        seen.add(key)
        o = e["obs"]["r1"]
        path = vlib.save_replay(prop, "sess-" + e["id"], {"property": prop, "kind": "conc", "episode": ep, "store": e["store"], "seed": seed,
                                                          "ops": [{"op": q["op"], "status": q["resp"]["status"], "calls": q["calls"]} for q in e["ops"]],
                                                          "served_with_wrong_hash": {"blobs": o["blobsbad"], "manifests": o["mansbad"], "tags": o["tagsbad"]}, "hung": e["hung"]})
        violations.append((path, {"trace": "%s@%s" % (e["id"], e["store"]), "i": e["i"], "op": "+".join(q["op"]["op"] for q in e["ops"]),
                                  "clauses": ["integrity"] if (o["blobsbad"] or o["mansbad"] or o["tagsbad"]) else
                                  ["acked"] if any(q["op"]["op"] == "UpPut" and q["resp"]["status"] == 201 and q["op"]["dig"] not in o["blobs"] for q in e["ops"]) else ["noerr"]}))
    return {"violations": violations, "events": x["v"]["stats"]["events"], "traces": x["runs"],
            "note": "%d episodes of requests racing on one upload session (closing PUT by a digest of the session's or of another algorithm, further chunks, status, "
                    "cancellation), %d runs on mem and dir (seeded random interleavings of the session's store calls through the blocking tap, steps that release two pending store calls at once, ungated bursts, and "
                    "directed runs that release the closing PUT's Close and a PATCH's Write together), judged by "
                    "TraceLin!ConcInteg: everything served afterwards hashes to its digest, a closing PUT acknowledged with 201 has made its digest retrievable, no panic, no hang" % (len(eps), x["runs"])}


CHECKS["C01"] = c01


def oversize_programs(seed):
    """Directed: a manifest whose JSON is below the manifest limit and whose trailing white space crosses it (catalogue entry mg),
    pushed with and without Content-Length, by tag and by digest: refused, nothing stored in a shortened form."""
    def blob(b):
        return {"op": "PushBlob", "repo": "r1", "dig": "sha256:" + b, "chunk": {"c": b, "p": "all"}, "which": "chunked", "alg": ""}
    progs, k = [], 0
    for lk in (False, True):
        for ref in ({"k": "tag", "v": "t1"}, {"k": "dig", "v": "sha256:mg"}):
            for ct in ("", "oci.image"):
                ops = [blob("b1"), blob("b2"),
                       {"op": "ManPut", "repo": "r1", "ref": ref, "ctype": ct, "ctvar": "", "body": "mg", "lenKnown": lk, "dparam": ""},
                       {"op": "ManPut", "repo": "r1", "ref": {"k": "tag", "v": "t2"}, "ctype": "oci.image", "ctvar": "", "body": "m1", "lenKnown": lk, "dparam": ""},
                       {"op": "Restart"}]
                progs.append({"id": "oversize-%d" % k, "cfg": dict(DEFAULT_CFG), "contents": ["m1", "mg"], "algs": ["sha256"], "ntags": 2, "repos": ["proj/app"], "seed": k,
                              "tagstyle": 0, "pre": "", "sentinel": False, "ops": ops, "stores": ["mem", "dir"]})
                k += 1
    return progs


def c04(prop, tier, seed, work):
    scs = [
        dict(name="oversize", static_programs=oversize_programs, obs=[]),
        dict(name="manput", profile="manput", contents=["m1", "m2", "m3", "m4", "x1", "x3", "a1", "mg", "mi"], algs=["sha256", "sha512"], depth=(18, 30), num=(40, 400),
             stores=STORES3, obs=["refs"], mc_contents=["m1", "x4"], mc_depth=(3, 4)),
        # references that existed and are gone again when the manifest / index that names them is pushed
        dict(name="manputdel", profile="manputdel", contents=["m1", "m2", "x1"], algs=["sha256"], depth=(16, 26), num=(25, 250),
             stores=["mem", "dir"], obs=["refs"], nrepos=1),
    ]
    return histories(prop, tier, seed, work, scs, "", "a history is non-trivial if it contains a manifest push; distinct = distinct operation sequences",
                     {"ManPut"})


CHECKS["C04"] = c04


def refs_gc_programs(seed):
    """Directed histories for nested referrers under the most aggressive collection policy: a4 (referrer of a subject that never
    exists) is also the child of the index a12 (a referrer of m1, which is not pushed); a1 is a tagged referrer of m1."""
    import itertools
    def blob(b):
        return {"op": "PushBlob", "repo": "r1", "dig": "sha256:" + b, "chunk": {"c": b, "p": "all"}, "which": "chunked", "alg": ""}
    def put(c, ref, ct):
        return {"op": "ManPut", "repo": "r1", "ref": ref, "ctype": ct, "ctvar": "", "body": c, "lenKnown": True, "dparam": ""}
    def dig(c):
        return {"k": "dig", "v": "sha256:" + c}
    pushes = {"a4": put("a4", dig("a4"), "oci.image"), "a12": put("a12", dig("a12"), "oci.index"), "a1": put("a1", {"k": "tag", "v": "t1"}, "oci.image")}
    progs, k = [], 0
    for order in (("a4", "a12", "a1"), ("a4", "a1", "a12"), ("a1", "a4", "a12")):
        for ws in (True, False):
            for tail in ([], [{"op": "ManDel", "repo": "r1", "ref": {"k": "tag", "v": "t1"}}, {"op": "GC", "repo": "r1"}]):
                ops = [blob("b1"), blob("b2")] + [pushes[c] for c in order] + [{"op": "GC", "repo": "r1"}, {"op": "GC", "repo": "r1"}] + tail + [{"op": "Restart"}]
                cfg = dict(DEFAULT_CFG, untagged=True, dangling=True, withSubj=ws, grace=False, emptyRepo=False)
                progs.append({"id": "refsgcD-%d" % k, "cfg": cfg, "contents": ["m1", "a1", "a4", "a12"], "algs": ["sha256"], "ntags": 2, "repos": ["proj/app"], "seed": k,
                              "tagstyle": 0, "pre": "", "sentinel": False, "ops": ops, "stores": ["mem", "dir"]})
                k += 1
    return progs


def c07(prop, tier, seed, work):
    scs = [
        dict(name="refsgcD", static_programs=refs_gc_programs, obs=["refs"]),
        dict(name="refs", profile="refs", contents=["m1", "m2", "x1", "a1", "a2", "a3", "a4", "a5", "a6", "a7"], algs=["sha256"], depth=(24, 40), num=(30, 300),
             stores=STORES3, obs=["refs", "filters"], mc_contents=["m1", "a1", "a2"], mc_depth=(4, 5), nrepos=1),
        dict(name="refsgc", profile="gcrefs", contents=["m1", "m2", "a1", "a2", "a3", "a4", "a7"], algs=["sha256"], depth=(24, 40), num=(12, 150),
             stores=["mem", "dir"], obs=["refs"], nrepos=1, cfg={"withSubj": True, "emptyRepo": False}),
        dict(name="refsgc2", profile="gcrefs", contents=["m1", "a1", "a2"], algs=["sha256"], depth=(20, 30), num=(15, 150),
             stores=["mem", "dir"], obs=["refs"], nrepos=1, cfg={"withSubj": True, "emptyRepo": False}),
        # a referrer (a4, subject never exists) that is also the child of an index referrer (a12) of another subject, next to a
        # tagged referrer of that subject: under the most aggressive policy the responses are kept through several rounds
        dict(name="refsgc3", profile="gcrefs2", contents=["m1", "a1", "a4", "a12"], algs=["sha256"], depth=(18, 28), num=(24, 200),
             stores=["mem", "dir"], obs=["refs"], nrepos=1, cfg={"untagged": True, "dangling": True, "withSubj": True, "grace": False, "emptyRepo": False}),
        dict(name="refspage1", profile="refs", contents=["m1", "a1", "a2", "a5", "a9"], algs=["sha256"], depth=(22, 36), num=(10, 120),
             stores=["mem", "dir"], obs=["refs", "filters"], nrepos=1, cfg={"refLimit": 600}),
        dict(name="refspage2", profile="refs", contents=["m1", "a1", "a2", "a5", "a9"], algs=["sha256"], depth=(22, 36), num=(10, 120),
             stores=["mem", "dir"], obs=["refs", "filters"], nrepos=1, cfg={"refLimit": 950}),
        # entries that cannot fit on any page (a10: 1060 bytes, a11: 1007 bytes alone) next to ones that do
        dict(name="refspage3", profile="refs", contents=["m1", "a1", "a2", "a10", "a11"], algs=["sha256"], depth=(22, 36), num=(10, 120),
             stores=["mem", "dir"], obs=["refs", "filters"], nrepos=1, cfg={"refLimit": 600}),
        dict(name="refspage4", profile="refs", contents=["m1", "a1", "a10", "a11"], algs=["sha256"], depth=(22, 36), num=(8, 100),
             stores=["mem", "dir"], obs=["refs", "filters"], nrepos=1, cfg={"refLimit": 1030}),
        dict(name="refs512", profile="refs", contents=["m1", "a1", "a8", "a3"], algs=["sha256", "sha512"], depth=(20, 30), num=(10, 100),
             stores=["mem", "dir"], obs=["refs", "filters"], nrepos=2),
    ]
    return histories(prop, tier, seed, work, scs, "", "a history is non-trivial if it pushes at least one manifest with a subject; distinct = distinct operation sequences",
                     {"ManPut"})


CHECKS["C07"] = c07


def build_vclock(work):
    """The harness with internal/cache of the CURRENT tree on the virtual clock (rewrite_cache) and the clock exported."""
    ovf, counts = rewrite_cache(work)
    with open(ovf) as f:
        ov = json.load(f)
    inj = os.path.join(vlib.HARNESS, "inpkg")
    pkg = os.path.join(vlib.REPO, "internal", "cache")
    ov["Replace"] = {k: v for k, v in ov["Replace"].items() if not k.endswith("_test.go")}
    ov["Replace"][os.path.join(pkg, "vclock_api_verif.go")] = os.path.join(inj, "cache", "vclock_api_verif.go")
    ov["Replace"][os.path.join(vlib.REPO, "verif_vclock.go")] = os.path.join(inj, "olareg", "verif_vclock.go")
    ovf2 = os.path.join(os.path.dirname(ovf), "overlay-vclock.json")
    with open(ovf2, "w") as f:
        json.dump(ov, f)
    d = work.sub("vclock-build")
    out = vlib.build_harness(work, tags="verif vclock", overlay=ovf2)
    dst = os.path.join(d, "vharness-vclock")
    shutil.copy(out, dst)
    vlib.build_harness(work)          # restore the plain build at the shared path
    return dst


def c08(prop, tier, seed, work):
    scs = [
        dict(name="sess", profile="sess", contents=["b0", "b1", "b2", "b4"], algs=["sha256", "sha512"], depth=(24, 40), num=(40, 400),
             stores=STORES3, obs=["sess", "disk"], mc_contents=["b1", "b2"], mc_depth=(4, 5)),
    ]
    # eviction (session limit 1, 2, 3) and expiry (grace period) at any point, on the virtual clock
    for mx in (1, 2, 3):
        scs.append(dict(name="sessx%d" % mx, profile="sessx", contents=["b1", "b2"], algs=["sha256"], depth=(30, 44), num=(14, 150),
                        stores=["mem", "dir"], obs=["sess", "disk"], cfg={"uploadMax": mx}, harness=build_vclock))
    return histories(prop, tier, seed, work, scs, "", "a history is non-trivial if it sends at least one PATCH; distinct = distinct operation sequences",
                     {"UpPatch"}, extras=[fault_extras([
                         dict(name="sessF", profile="sess", contents=["b1", "b2"], algs=["sha256"], depth=(12, 18), num=(14, 70), nrepos=1)])])


CHECKS["C08"] = c08

GC_A = ["m1", "ml", "x4", "x1", "b3"]                          # aliasing, nesting, shared and dangling blobs
GC_B = ["m1", "m2", "x1", "a1", "a3", "a4", "a6", "a7", "b3"]        # referrers: of images, of referrers, of an index, dangling


def gc_scenarios(tier, stores):
    scs = []
    for u in (False, True):
        for g in (False, True):
            scs.append(dict(name="gcA-%s%s" % ("U" if u else "u", "G" if g else "g"), profile="gc", contents=GC_A, algs=["sha256"],
                            depth=(24, 40), num=(25, 200), stores=stores, obs=[], nrepos=1,
                            cfg={"untagged": u, "dangling": False, "withSubj": False, "grace": g, "emptyRepo": False}))
    for u in (False, True):
        for d in (False, True):
            for w in (False, True):
                for g in (False, True):
                    name = "gcB-%s%s%s%s" % ("U" if u else "u", "D" if d else "d", "W" if w else "w", "G" if g else "g")
                    scs.append(dict(name=name, profile="gc", contents=GC_B, algs=["sha256"], depth=(26, 40), num=(4, 50),
                                    stores=stores, obs=[], nrepos=1,
                                    cfg={"untagged": u, "dangling": d, "withSubj": w, "grace": g, "emptyRepo": False}))
    # a tiny universe under the default referrer policy: referrers of a subject that is only a blob, collections inside
    # the grace period, restarts
    for g in (True, False):
        scs.append(dict(name="gcC-%s" % ("G" if g else "g"), profile="gc", contents=["m1", "a1", "a2"], algs=["sha256"], depth=(20, 30), num=(15, 150),
                        stores=stores, obs=[], nrepos=1, cfg={"untagged": False, "dangling": False, "withSubj": True, "grace": g, "emptyRepo": False}))
    # one image, two repositories, empty repository pruning on: collections between the blob uploads and the manifest push of
    # an image (new repository), recent manifests over aged layers
    for u, g in ((True, True), (False, True), (True, False)):
        scs.append(dict(name="gcD-%s%s" % ("U" if u else "u", "G" if g else "g"), profile="gc", contents=["m1"], algs=["sha256"], depth=(14, 24), num=(20, 150),
                        stores=stores, obs=[], nrepos=2, cfg={"untagged": u, "dangling": False, "withSubj": False, "grace": g, "emptyRepo": True}))
    # two images, three tags, untagged collection: tags moved and deleted, manifests deleted by digest (the order of the entries
    # of one digest in the index changes), then collections
    for g in (True, False):
        scs.append(dict(name="gcT-%s" % ("G" if g else "g"), profile="gctags", contents=["m1", "m2"], algs=["sha256"], depth=(18, 28), num=(30, 200),
                        stores=stores, obs=[], nrepos=1, ntags=3, cfg={"untagged": True, "dangling": False, "withSubj": False, "grace": g, "emptyRepo": False}))
    scs.append(dict(name="gcorder", static_programs=gc_order_programs, obs=[]))
    scs.append(dict(name="gcext", static_programs=gc_ext_programs, obs=[]))
    scs[0]["mc_contents"] = ["m1", "a1"]
    scs[0]["mc_depth"] = (4, 5)
    return scs


def gc_ext_programs(seed):
    """Directed: another tool (a second server on the same directory) adds a tagged image to the layout right after the server
    under test looked at it; the collection that follows at once must see it (no grace period: nothing is protected by its age)."""
    def blob(b, via=""):
        o = {"op": "PushBlob", "repo": "r1", "dig": "sha256:" + b, "chunk": {"c": b, "p": "all"}, "which": "mono", "alg": ""}
        if via:
            o["via"] = via
        return o
    progs = []
    for k, untagged in enumerate((True, False)):
        ops = [blob("b3"), {"op": "TagsList", "repo": "r1", "method": "GET", "n": "100", "ni": 100, "nc": "pos", "last": 0},
               blob("b1", "other"), blob("b2", "other"),
               {"op": "ManPut", "repo": "r1", "ref": {"k": "tag", "v": "t1"}, "ctype": "oci.image", "ctvar": "", "body": "m1", "lenKnown": True, "dparam": "", "via": "other"},
               {"op": "GC", "repo": "r1"}, {"op": "TagsList", "repo": "r1", "method": "GET", "n": "100", "ni": 100, "nc": "pos", "last": 0}, {"op": "Restart"}]
        cfg = dict(DEFAULT_CFG, untagged=untagged, grace=False, emptyRepo=False)
        progs.append({"id": "gcext-%d" % k, "cfg": cfg, "contents": ["m1", "b3"], "algs": ["sha256"], "ntags": 2, "repos": ["proj/app"], "seed": k,
                      "tagstyle": 0, "pre": "", "sentinel": False, "ops": ops, "stores": ["dir"]})
    return progs


def gc_order_programs(seed):
    """Directed histories: the entries of one digest end up in the index in every order (tagged entry, untagged left-over of a
    deleted tag, before / after each other) before an untagged collection runs; what a collection keeps must not depend on it."""
    import itertools
    def blob(b):
        return {"op": "PushBlob", "repo": "r1", "dig": "sha256:" + b, "chunk": {"c": b, "p": "all"}, "which": "chunked", "alg": ""}
    def put(c, ref):
        return {"op": "ManPut", "repo": "r1", "ref": ref, "ctype": "oci.image", "ctvar": "", "body": c, "lenKnown": True, "dparam": ""}
    def tag(t):
        return {"k": "tag", "v": t}
    def dig(c):
        return {"k": "dig", "v": "sha256:" + c}
    def dele(ref):
        return {"op": "ManDel", "repo": "r1", "ref": ref}
    progs = []
    k = 0
    for D, X in (("m1", "m2"), ("m2", "m1")):
        for keep, drop in (("t2", "t3"), ("t3", "t2")):
            for first in ("X", "D", "Ddig"):
                for grace in (True, False):
                    ops = [blob("b1"), blob("b2"), blob("b3")]
                    if first == "X":
                        ops += [put(X, tag("t1")), put(D, tag(keep)), put(D, tag(drop))]
                    elif first == "D":
                        ops += [put(D, tag(keep)), put(X, tag("t1")), put(D, tag(drop))]
                    else:
                        ops += [put(X, tag("t1")), put(D, dig(D)), put(D, tag(drop)), put(D, tag(keep))]
                    ops += [dele(tag(drop)), dele(dig(X)), {"op": "Age", "repo": "r1"}, {"op": "GC", "repo": "r1"},
                            {"op": "TagsList", "repo": "r1", "method": "GET", "n": "100", "ni": 100, "nc": "pos", "last": 0}, {"op": "GC", "repo": "r1"}, {"op": "Restart"}]
                    cfg = dict(DEFAULT_CFG, untagged=True, grace=grace, emptyRepo=False)
                    progs.append({"id": "gcorder-%d" % k, "cfg": cfg, "contents": ["m1", "m2"], "algs": ["sha256"], "ntags": 3, "repos": ["proj/app"], "seed": k,
                                  "tagstyle": 0, "pre": "", "sentinel": False, "ops": ops, "stores": ["mem", "dir"]})
                    k += 1
    # images hidden behind a tagged index whose tag is deleted or moved: the collection takes the index and its children; a
    # delete of a collected child by digest finds nothing (no entry without content is left behind, not even a hidden one)
    def putx(c, ref, ct):
        return {"op": "ManPut", "repo": "r1", "ref": ref, "ctype": ct, "ctvar": "", "body": c, "lenKnown": True, "dparam": ""}
    for grace in (True, False):
        for untag in ("del", "move"):
            ops = [blob("b1"), blob("b2"), blob("b3"), putx("m1", dig("m1"), "oci.image"), putx("m2", dig("m2"), "oci.image"), putx("x1", tag("t1"), "oci.index")]
            ops += [dele(tag("t1"))] if untag == "del" else [putx("m1", tag("t1"), "oci.image")]
            ops += [{"op": "Age", "repo": "r1"}, {"op": "GC", "repo": "r1"}, dele(dig("m2")), dele(dig("x1")), {"op": "GC", "repo": "r1"}, {"op": "Restart"}]
            cfg = dict(DEFAULT_CFG, untagged=True, grace=grace, emptyRepo=False)
            progs.append({"id": "gcorder-%d" % k, "cfg": cfg, "contents": ["m1", "m2", "x1"], "algs": ["sha256"], "ntags": 3, "repos": ["proj/app"], "seed": k,
                          "tagstyle": 0, "pre": "", "sentinel": False, "ops": ops, "stores": ["mem", "dir"]})
            k += 1
    return progs


GCIMPL_CFG = "SPECIFICATION MCSpec\nINVARIANT Safe\nINVARIANT Exact\nINVARIANT Listed\nCHECK_DEADLOCK FALSE\n"


def gcimpl_extras(work, prop, tier, seed):
    """The collector as written (spec/GCImpl.tla) against the policy of Registry on every shape of a small universe
    (spec/MCGCImpl.tla); without the second scan of the responses TLC must find a referrer that stays unlisted."""
    vh = vlib.build_harness(work)
    notes = []
    unis = [["m1", "m2", "x1", "a1", "a4"]] if tier == "quick" else [["m1", "m2", "x1", "a1", "a4", "a12"], ["m1", "x4", "x2", "a1", "a3"]]
    for k, contents in enumerate(unis):
        cat = vlib.catalogue(work, vh, "gcimpl%d" % k, contents, ["sha256"], 1, cfg=sc_cfg({}), ntags=1, nrepos=1)
        res = vlib.tlc(work, "gcimpl%d" % k, "MCGCImpl", GCIMPL_CFG, files={cat: "cat.json"}, workers=vlib.WORKERS, timeout=3000, java_opts="-Xss64m")
        vlib.tlc_ok(res, "MCGCImpl " + ",".join(contents))
        notes.append("GCImpl on every shape over %s (one repository, one tag, 16 policies): %d shapes, Safe (MustBlobs / MustAddr kept), Exact (nothing outside MayBlobs kept once nothing is recent), "
                     "Listed (a referrer that stays is listed) hold, %.0fs" % (",".join(contents), res["distinct"], res["wall"]))
    cat = vlib.catalogue(work, vh, "gcimplS", ["m1", "a1", "a4", "a12"], ["sha256"], 1, cfg=sc_cfg({}), ntags=1, nrepos=1)
    res = vlib.tlc(work, "gcimplS", "MCGCImpl", GCIMPL_CFG + "CONSTANT Rescan <- NoRescan\n", files={cat: "cat.json"}, workers=4, timeout=1500, java_opts="-Xss64m")
    if "Invariant Listed is violated" not in res["out"]:
        raise Inconclusive("GCImpl without the second scan of the responses is no longer rejected: the model lost its teeth\n" + res["out"][-1500:])
    notes.append("GCImpl with Rescan <- FALSE: TLC reports a referrer that stays but is no longer listed (sanity of Listed)")
    # the walk as the code runs it (work list, entries popped in ANY order, walked map, scan of the responses when the list runs
    # empty) ends with exactly the fixed point of GCImpl
    wcfg = "SPECIFICATION MCWalkSpec\nINVARIANT WalkAgrees\nCHECK_DEADLOCK FALSE\n"
    wc = vlib.catalogue(work, vh, "gcwalk", ["m1", "m2", "x1", "a1", "a4", "a12"] if tier != "quick" else ["m1", "x1", "a1", "a4", "a12"], ["sha256"], 1, cfg=sc_cfg({}), ntags=1, nrepos=1)
    res = vlib.tlc(work, "gcwalk", "MCGCImpl", wcfg, files={wc: "cat.json"}, workers=vlib.WORKERS, timeout=3000, java_opts="-Xss64m")
    vlib.tlc_ok(res, "MCGCImpl walk")
    notes.append("the stepwise walk (work list popped in any order) agrees with GCImpl's fixed point on every shape of the policy untagged + dangling, no grace period: %d states, %.0fs" % (res["distinct"], res["wall"]))
    res = vlib.tlc(work, "gcwalkS", "MCGCImpl", wcfg + "CONSTANT WalkRescans <- NoRescan\n", files={cat: "cat.json"}, workers=4, timeout=1500, java_opts="-Xss64m")
    if "Invariant WalkAgrees is violated" not in res["out"]:
        raise Inconclusive("a stepwise walk that never scans the responses again still agrees with GCImpl: the model lost its teeth\n" + res["out"][-1500:])
    notes.append("stepwise walk without the scan of the responses: TLC reports the disagreement (sanity of WalkAgrees)")
    return {"violations": [], "events": 0, "traces": 0, "note": "; ".join(notes) + "; the collections of the directory store in the histories above are compared with GCImpl (clause gc.impl, reported as DRIFT)"}


def c05(prop, tier, seed, work):
    return histories(prop, tier, seed, work, gc_scenarios(tier, STORES3), "", "a history is non-trivial if it runs at least one collection after at least one manifest push; distinct = distinct operation sequences; all 16 combinations of Untagged/ReferrersDangling/ReferrersWithSubj/GracePeriod",
                     {"GC"}, extras=[gcimpl_extras])


def c06(prop, tier, seed, work):
    scs = gc_scenarios(tier, ["mem", "dir"])
    for sc in scs:
        sc["obs"] = ["disk"]
    for u, w in ((True, True), (True, False), (False, True)):
        scs.append(dict(name="pass-%s%s" % ("U" if u else "u", "W" if w else "w"), profile="gcpass", contents=["m1", "m2", "x1", "a1", "b3"], algs=["sha256"],
                        depth=(22, 36), num=(10, 100), stores=["mem", "dir"], obs=[], nrepos=2,
                        cfg={"untagged": u, "dangling": False, "withSubj": w, "grace": False, "emptyRepo": False}))
    # a memory store over a directory that already holds the content: pushed again it is held twice; one pass hides it all
    for u in (True, False):
        scs.append(dict(name="gcmd-%s" % ("U" if u else "u"), profile="gcmd", contents=["m1", "m2"], algs=["sha256"], depth=(22, 34), num=(15, 150),
                        stores=["dir"], obs=[], nrepos=1, reconf=[{"store": "memdir", "untagged": u, "grace": False}],
                        # (the directory store itself runs with a policy under which the collection of its Close removes nothing)
                        cfg={"untagged": False, "dangling": False, "withSubj": False, "grace": True, "emptyRepo": False}))
    return histories(prop, tier, seed, work, scs, "", "a history is non-trivial if it runs at least one collection after at least one manifest push; distinct = distinct operation sequences",
                     {"GC", "GCPass"}, extras=[c06_convert])      # (GCImpl / MCGCImpl run with ./check C05; the drift clause gc.impl binds here)


def c06_convert(work, prop, tier, seed):
    """Layouts written by another tool (spec/ConvertAbs.tla) in which nothing is tagged but the fallback tags, opened by a directory
    store that collects untagged manifests, has no grace period and removes empty repositories: the first access is a collection
    (it loads and converts the layout itself), then a second one (TraceConvert, Focus C06: gc.idem, gc.emptyrepo)."""
    vh = vlib.build_harness(work)
    res, layouts, lf = convert_layouts(work)
    v, (nlay, events, images), dt, tw = convert_run(work, vh, lf, "c06", 1, 0, "dirgc", False, seed, "C06", pick=24 if tier == "quick" else 2)
    log("convert layouts: %d of %d layouts on dirgc, %d events, %d failures (exec %.1fs, tlc %.1fs)" % (nlay, len(layouts), events, len(v["fails"]), dt, tw))
    if not v["fails"] and (v["stats"]["checked"] < nlay or nlay < 100):
        raise Inconclusive("dirgc: only %d of %d events were judged" % (v["stats"]["checked"], nlay))
    violations, seen = [], set()
    for f in v["fails"]:
        key = json.dumps([sorted(f["clauses"]), f["layout"]["fb"]], sort_keys=True)
        if key in seen:
            continue
        seen.add(key)
        path = vlib.save_replay(prop, "layout-%d-%s-%s" % (f["lid"], f["store"], f["phase"]), {"property": prop, "kind": "convert", "failure": f, "seed": seed})
        violations.append((path, dict(f, trace="layout %d@%s" % (f["lid"], f["store"]), op="collect " + json.dumps(f["layout"]))))
    return {"violations": violations, "events": events, "traces": nlay,
            "note": "%d of the %d layouts of spec/ConvertAbs.tla written with nothing tagged but the fallback tags, first accessed by a collection of a directory store "
                    "(untagged collection, no grace period, empty repositories removed), then collected again: judged by spec/TraceConvert.tla with Focus C06 "
                    "(a second pass changes nothing below the root; a repository the collection emptied is removed)" % (nlay, len(layouts))}


def c10(prop, tier, seed, work):
    scs = [
        dict(name="layout", profile="layout", contents=["m1", "m2", "x1", "x4", "a1", "b3"], algs=["sha256", "sha512"], depth=(26, 40), num=(25, 300),
             stores=STORES3, obs=["refs", "disk", "sess"], cfg={"emptyRepo": True}, mc_contents=["m1"], mc_depth=(4, 5)),
        dict(name="layoutS", profile="layout", contents=["m1", "x4"], algs=["sha256"], depth=(18, 30), num=(25, 250),
             stores=["dir", "mem"], obs=["disk", "sess"], cfg={"emptyRepo": True}, nrepos=1),
        dict(name="layout384", profile="layout", contents=["m1", "b3"], algs=["sha256", "sha384"], depth=(20, 30), num=(8, 80),
             stores=["dir", "mem"], obs=["disk", "sess"], cfg={"emptyRepo": True}, repos=["a", "a/b"]),
        # an index nested in an index (x2 lists x1 lists m1, m2): what a reload of index.json rebuilds from the index blobs
        dict(name="layoutN", profile="layout", contents=["x2"], algs=["sha256"], depth=(30, 44), num=(25, 250),
             stores=["dir", "memdir"], obs=["disk"], cfg={"emptyRepo": True}, nrepos=1),
    ]
    return histories(prop, tier, seed, work, scs, "", "a history is non-trivial if it restarts the server or runs a collection after at least one manifest push; distinct = distinct operation sequences",
                     {"Restart", "GC"})


RECONF = [
    {"store": "dir", "readOnly": True},
    {"store": "memdir"},
    {"store": "dir", "push": False},
    {"store": "dir", "delete": False},
    {"store": "dir", "blobDelete": False},
    {"store": "dir", "push": False, "delete": False, "readOnly": True},
    {"store": "memdir", "delete": False, "blobDelete": False},
    {"store": "dir"},
]


def foreign_programs(seed):
    """Static programs for pre-existing directories that are not built from the catalogue (testdata/testrepo with
    fallback-tag referrers to convert, testdata/corrupt): every request class, collections, restart."""
    def blob(r, c, w="mono"):
        return {"op": "PushBlob", "repo": r, "dig": "sha256:" + c, "chunk": {"c": c, "p": "all"}, "which": w, "alg": ""}

    def manput(r, c, ref):
        return {"op": "ManPut", "repo": r, "ref": ref, "ctype": "", "ctvar": "", "body": c, "lenKnown": True, "dparam": ""}
    ops = [{"op": "ProbeAll", "repo": "r1"}, blob("r1", "b1"), blob("r1", "b2", "chunked"), manput("r1", "m1", {"k": "tag", "v": "t1"}),
           {"op": "UpPost", "repo": "r1", "dig": "", "alg": "", "mount": "sha256:b1", "from": "r2", "chunk": {"c": "", "p": ""}},
           {"op": "ManDel", "repo": "r1", "ref": {"k": "raw", "v": "v1"}}, {"op": "ManDel", "repo": "r1", "ref": {"k": "raw", "v": "index"}},
           {"op": "BlobDel", "repo": "r1", "dig": "sha256:b1"}, {"op": "TagsList", "repo": "r1", "n": "", "ni": 0, "nc": "none", "last": 0, "method": "GET"},
           {"op": "GC", "repo": "r1"}, {"op": "GCPass"}, {"op": "ProbeAll", "repo": "r1"}, {"op": "Restart"}, {"op": "ProbeAll", "repo": "r1"},
           blob("r2", "b1"), manput("r2", "m1", {"k": "tag", "v": "t2"}), {"op": "GC", "repo": "r2"}, {"op": "Restart"}]
    progs = []
    tl = lambda r: {"op": "TagsList", "repo": r, "n": "", "ni": 0, "nc": "none", "last": 0, "method": "GET"}
    lops = [tl("r1"), tl("r2"), tl("raw:emptydir"), {"op": "GC", "repo": "r1"}, {"op": "GC", "repo": "r2"}, {"op": "GCPass"}, {"op": "Restart"},
            tl("r1"), tl("raw:emptydir"), blob("r2", "b1"), {"op": "Restart"}, tl("r2"), {"op": "Restart"}]
    for k, (over, stores) in enumerate((({"readOnly": True}, ["dir"]), ({"readOnly": True, "emptyRepo": True, "untagged": True}, ["dir"]), ({}, ["memdir"]))):
        cfg = dict(DEFAULT_CFG)
        cfg.update(over)
        progs.append({"id": "foreign-leftovers-%d" % k, "cfg": cfg, "contents": ["m1"], "algs": ["sha256"], "ntags": 3,
                      "repos": ["pre/existing", "other"], "seed": seed, "tagstyle": 0, "pre": "leftovers", "sentinel": False, "ops": lops,
                      "stores": stores})
    for pre in ("testrepo", "corrupt"):
        for k, over in enumerate(({"readOnly": True}, {"readOnly": True, "push": False}, {}, {"delete": False, "blobDelete": False})):
            cfg = dict(DEFAULT_CFG)
            cfg.update(over)
            progs.append({"id": "foreign-%s-%d" % (pre, k), "cfg": cfg, "contents": ["m1"], "algs": ["sha256"], "ntags": 3,
                          "repos": ["pre/existing", "other"], "seed": seed, "tagstyle": 0, "pre": pre, "sentinel": False, "ops": ops,
                          "stores": ["dir"] if over.get("readOnly") else ["memdir"]})
    return progs


def c14(prop, tier, seed, work):
    scs = [
        dict(name="ro", profile="ro", contents=["m1", "m2", "x1", "a1"], algs=["sha256"], depth=(30, 44), num=(25, 300),
             stores=["dir"], obs=["refs"], reconf=RECONF, nrepos=2, mc_contents=["m1"], mc_depth=(3, 4)),
        dict(name="ro2", profile="ro", contents=["m1", "b3"], algs=["sha256"], depth=(30, 44), num=(60, 400),
             stores=["dir"], obs=[], reconf=RECONF, nrepos=2),
        dict(name="foreign", static_programs=foreign_programs, obs=[], focus={"C14F"}),
    ]
    return histories(prop, tier, seed, work, scs, "", "a history is non-trivial if it reconfigures the server (read-only / memory over directory / APIs off) after pushes and then sends write requests; distinct = distinct operation sequences",
                     {"Reconf"}, extras=[c14_convert])


def c14_convert(work, prop, tier, seed):
    """Pre-existing layouts whose first listing triggers a referrer conversion (spec/ConvertAbs.tla), opened read-only and by a
    memory store: nothing below the directory changes and tags, manifests and blobs are still served (TraceConvert, Focus C14)."""
    vh = vlib.build_harness(work)
    res, layouts, lf = convert_layouts(work)
    v, (nlay, events, images), dt, tw = convert_run(work, vh, lf, "c14", 1, 0, "dirro,memdir", False, seed, "C14", pick=40 if tier == "quick" else 4)
    log("convert layouts: %d of %d layouts on dirro and memdir, %d events, %d failures (exec %.1fs, tlc %.1fs)" % (nlay, len(layouts), events, len(v["fails"]), dt, tw))
    violations, seen = [], set()
    for f in v["fails"]:
        key = json.dumps([f["store"], sorted(f["clauses"]), f["layout"]], sort_keys=True)
        if key in seen:
            continue
        seen.add(key)
        path = vlib.save_replay(prop, "layout-%d-%s-%s" % (f["lid"], f["store"], f["phase"]), {"property": prop, "kind": "convert", "failure": f, "seed": seed})
        f2 = dict(f, trace="layout %d@%s" % (f["lid"], f["store"]), op="open " + json.dumps(f["layout"]))
        violations.append((path, f2))
    return {"violations": violations, "events": events, "traces": nlay * 2,
            "note": "%d of the %d layouts of spec/ConvertAbs.tla (fallback tag referrers: accurate, stale, mixed, wrong descriptors, missing manifests) opened by a read-only directory "
                    "store and a memory store, observed twice, judged by spec/TraceConvert.tla with Focus C14 (terminates, kept, untouched)" % (nlay, len(layouts))}


def c16(prop, tier, seed, work):
    scs = [
        dict(name="iso", profile="iso", contents=["m1", "x4", "a1", "b3", "xe", "me"], algs=["sha256"], depth=(26, 40), num=(25, 300),
             stores=STORES3, obs=["refs", "sess"], nrepos=3, repos=["a", "a/b", "ab"], sentinel=True, mc_contents=["m1"], mc_depth=(3, 3)),
        dict(name="iso2", profile="iso", contents=["m1", "b3"], algs=["sha256"], depth=(20, 30), num=(10, 100),
             stores=["dir", "mem"], obs=["sess"], nrepos=3, repos=["x/y/z", "x/y", "x"], sentinel=True),
        # paged referrers (limit 600): the page cache is server wide; its pages must only be served to the repository they belong to
        dict(name="isopage", profile="iso", contents=["m1", "a1", "a2", "a9"], algs=["sha256"], depth=(26, 40), num=(12, 150),
             stores=["mem", "dir"], obs=["refs", "sess"], nrepos=2, repos=["a", "a/b"], cfg={"refLimit": 600}),
    ]
    return histories(prop, tier, seed, work, scs, "", "a history is non-trivial if it contains a cross repository mount or uses a session against another repository; distinct = distinct operation sequences",
                     {"UpPost"})


CHECKS["C10"] = c10
CHECKS["C14"] = c14
CHECKS["C16"] = c16
CHECKS["C05"] = c05
CHECKS["C06"] = c06


# --------------------------------------------------------------------------- C18: the repository index

INDEX_CFG = """SPECIFICATION %(spec)s
CONSTANTS
  Digs = %(digs)s
  Tags = %(tags)s
  Subjs = %(subjs)s
  None = None
  WithBoth = FALSE
  MaxChildOpt = %(child)d
%(extra)s
CHECK_DEADLOCK FALSE
"""
INDEX_PROPS = """VIEW View
INVARIANT NoPanic
INVARIANT TagUnique
INVARIANT SubjUnique
INVARIANT UntaggedOnce
INVARIANT LookupByDigest
PROPERTY LastWriterWins
PROPERTY RmTagKeepsDigest
PROPERTY RmDigestRemovesAll"""


def mset(prefix, n):
    return "{" + ", ".join("%s%d" % (prefix, i) for i in range(1, n + 1)) + "}"


def c18(prop, tier, seed, work):
    t0 = time.time()
    vh = vlib.build_harness(work)
    quick = tier == "quick"
    # (1) design level: closure of the implementation-shaped model, all C18 invariants and action properties
    closures = [(2, 2, 1, 2), (2, 2, 2, 1)] if quick else [(2, 2, 1, 2), (2, 2, 2, 2), (3, 2, 1, 1)]
    states = trans = 0
    mc_notes = []
    for (nd, nt, ns, ch) in closures:
        cfg = INDEX_CFG % dict(spec="Spec", digs=mset("d", nd), tags=mset("t", nt), subjs=mset("s", ns), child=ch, extra=INDEX_PROPS)
        res = vlib.tlc(work, "ix-%d%d%d%d" % (nd, nt, ns, ch), "IndexImpl", cfg, workers=vlib.WORKERS, timeout=1500)
        vlib.tlc_ok(res, "IndexImpl closure")
        states += res["distinct"]
        trans += res["states"]
        mc_notes.append("IndexImpl closure %d digests x %d tags x %d subjects, children option <= %d: %d distinct states, %d transitions, depth %d, %.0fs"
                        % (nd, nt, ns, ch, res["distinct"], res["states"], res["depth"], res["wall"]))
    # (2) behaviours of the model replayed on the real types.Index, (3) random sequences generated in Go
    num, depth = (300, 40) if quick else (6000, 80)
    nrand, rlen = (300, 60) if quick else (6000, 120)
    progs = []
    for gi, (nd, nt, ns, ch) in enumerate([(3, 3, 2, 2), (2, 2, 1, 2)]):
        cfg = INDEX_CFG % dict(spec="GSpec", digs=mset("d", nd), tags=mset("t", nt), subjs=mset("s", ns), child=ch,
                               extra="CONSTANT Depth = %d\nINVARIANT Emit" % depth)
        res = vlib.tlc(work, "ixgen%d" % gi, "MCIndex", cfg, simulate="num=%d" % (num // 2), depth=depth + 2, seed=seed + gi, workers=1, timeout=900)
        hs = vlib.tlc_prints(res["out"], "PROG")
        if "Error:" in res["out"] or not hs:
            raise Inconclusive("MCIndex generator failed:\n" + res["out"][-2000:])
        for i, h in enumerate(hs):
            progs.append({"id": "sim%d-%d" % (gi, i), "steps": h, "digs": ["d%d" % k for k in range(1, nd + 1)],
                          "tags": ["t%d" % k for k in range(1, nt + 1)], "subjs": ["s%d" % k for k in range(1, ns + 1)]})
    # (2b) transition coverage of a small closure: one history per transition (shortest history to the state, then the operation)
    for gi, (nd, nt, ns, ch) in enumerate([(2, 2, 0, 0)] if quick else [(2, 2, 0, 0), (2, 2, 1, 1)]):
        cfg = INDEX_CFG % dict(spec="TSpec", digs=mset("d", nd), tags=mset("t", nt), subjs=mset("s", ns), child=ch, extra="CONSTANT Depth = 0\nVIEW View\nACTION_CONSTRAINT EmitT")
        res = vlib.tlc(work, "ixtrans%d" % gi, "MCIndex", cfg, workers=1, timeout=1500)
        hs = vlib.tlc_prints(res["out"], "PROG")
        if "Error:" in res["out"] or len(hs) < 50:
            raise Inconclusive("MCIndex transition coverage failed (%d histories):\n%s" % (len(hs), res["out"][-2000:]))
        mc_notes.append("transition coverage %d digests x %d tags x %d subjects, children option <= %d: %d distinct states, %d transitions, each replayed on the real index" % (nd, nt, ns, ch, res["distinct"], len(hs)))
        for i, h in enumerate(hs):
            progs.append({"id": "trans%d-%d" % (gi, i), "steps": h, "digs": ["d%d" % k for k in range(1, nd + 1)],
                          "tags": ["t%d" % k for k in range(1, nt + 1)], "subjs": ["s%d" % k for k in range(1, ns + 1)]})
    pf = work.path("ixprogs.ndjson")
    vlib.write_programs(pf, progs)
    tf = work.path("ixtrace.ndjson")
    rc, out, dt = vlib.run([vh, "index", "-programs", pf, "-o", tf, "-random", str(nrand), "-len", str(rlen), "-seed", str(seed)], timeout=900)
    cfg = "SPECIFICATION TraceSpec\nINVARIANT Report\nPOSTCONDITION Consumed\nCHECK_DEADLOCK FALSE\n"
    res = vlib.tlc(work, "ixval", "TraceIndex", cfg, files={tf: "trace.ndjson"}, workers=1, timeout=1500, java_opts="-Xss64m")
    vs = vlib.tlc_prints(res["out"], "VERDICT")
    if "Model checking completed. No error has been found." not in res["out"] or len(vs) != 1:
        raise Inconclusive("TraceIndex did not run to the end:\n" + res["out"][-3000:])
    v = vs[0]
    violations = []
    allprogs = {p["id"]: p for p in progs}
    for f in v["fails"]:
        path = vlib.save_replay(prop, f["trace"], {"property": prop, "kind": "index", "failure": f, "seed": seed,
                                                  "program": allprogs.get(f["trace"]), "random": {"n": nrand, "len": rlen}})
        violations.append((path, f))
    ntraces = len(progs) + nrand
    distinct = len({json.dumps([st["op"] for st in p["steps"]]) for p in progs})
    cov = {"states": states, "transitions": trans, "traces_validated_against_impl": ntraces,
           "trace_events": v["stats"]["events"], "trace_events_checked": v["stats"]["checked"],
           "drift_events": v["stats"]["drift"],
           "evaluations": ntraces, "distinct_nontrivial": distinct,
           "rule": "behaviours of IndexImpl (TLC simulation, distinct operation sequences counted) and Go-generated random sequences, each applied to one real types.Index; every sequence mixes AddDesc/RmDesc/AddChildren and a Copy; non-trivial = at least %d operations" % depth,
           "samples": [[st["op"] for st in progs[0]["steps"][:10]]],
           "model_checking": mc_notes, "exhaustive": False, "failures": [f for _, f in violations][:10],
           "drift_note": "drift = the exact Manifests list of the real index differs from the list IndexImpl predicts (reported, not a verdict)"}
    vlib.write_evidence(prop, tier, seed, "model_checking", cov, ASSUME_COMMON[:1], time.time() - t0, len(violations))
    if v["stats"]["drift"]:
        print("DRIFT property=%s: %d events where the real list differs from the IndexImpl prediction (model needs updating; not a violation)" % (prop, v["stats"]["drift"]))
    if violations:
        for path, f in violations[:5]:
            print("VIOLATION property=%s replay=%s" % (prop, path))
            log("  trace %s event %d (%s): clauses %s" % (f["trace"], f["i"], f["op"], ",".join(f["clauses"])))
        return 1
    return 0


CHECKS["C18"] = c18


# --------------------------------------------------------------------------- C15: routing and error table

def c15(prop, tier, seed, work):
    t0 = time.time()
    vh = vlib.build_harness(work)
    quick = tier == "quick"
    cfg = "SPECIFICATION Spec\nINVARIANT TableOK\nINVARIANT Emit\nCHECK_DEADLOCK FALSE\n"
    res = vlib.tlc(work, "rt-enum", "MCRouting", cfg, workers=4, timeout=1200)
    vlib.tlc_ok(res, "MCRouting enumeration")
    classes = vlib.tlc_prints(res["out"], "REQ")
    if len(classes) < 1000:
        raise Inconclusive("MCRouting emitted only %d classes" % len(classes))
    cf = work.path("classes.ndjson")
    vlib.write_programs(cf, classes)
    tf = work.path("rt-trace.ndjson")
    stores = "mem,dir" if quick else "mem,dir,memdir,dirro"
    sample, variants = (1, 1) if quick else (1, 4)
    rc, out, dt = vlib.run([vh, "routing", "-classes", cf, "-o", tf, "-stores", stores, "-seed", str(seed), "-sample", str(sample),
                            "-variants", str(variants)], timeout=3000, env=dict(os.environ, TMPDIR=work.sub("roots")))
    cfg = "SPECIFICATION TraceSpec\nINVARIANT Report\nPOSTCONDITION Consumed\nCHECK_DEADLOCK FALSE\n"
    r2 = vlib.tlc(work, "rt-val", "TraceRouting", cfg, files={tf: "trace.ndjson"}, workers=1, timeout=3000, java_opts="-Xss64m")
    vs = vlib.tlc_prints(r2["out"], "VERDICT")
    if "Model checking completed. No error has been found." not in r2["out"] or len(vs) != 1:
        raise Inconclusive("TraceRouting did not run to the end:\n" + r2["out"][-3000:])
    v = vs[0]
    violations = []
    seen = set()
    for f in v["fails"]:
        key = json.dumps([f["store"], f["req"]], sort_keys=True)
        if key in seen:
            continue
        seen.add(key)
        path = vlib.save_replay(prop, "req-%d" % f["i"], {"property": prop, "kind": "routing", "failure": f, "seed": seed})
        violations.append((path, f))
    eps = {}
    for c in classes:
        eps[c["ep"]] = eps.get(c["ep"], 0) + 1
    cov = {"states": res["distinct"], "transitions": res["states"], "traces_validated_against_impl": v["stats"]["events"],
           "trace_events": v["stats"]["events"], "trace_events_checked": v["stats"]["checked"],
           "evaluations": v["stats"]["events"], "distinct_nontrivial": len(classes) // sample,
           "rule": "every request class of spec/Routing.tla (full product per endpoint, %d classes: %s) is one TLC state; "
                   "every %d-th class is executed, quick on mem and dir, thorough on mem, dir, mem-over-dir and read-only dir, with "
                   "%d seeded concretisation(s); a class is non-trivial by construction (it differs from every other in at least one dimension)" % (len(classes), json.dumps(eps), sample, variants),
           "samples": classes[:3] + classes[len(classes) // 2:len(classes) // 2 + 2],
           "exhaustive": not quick, "failures": [f for _, f in violations][:10]}
    vlib.write_evidence(prop, tier, seed, "model_checking", cov, ASSUME_COMMON[:2] + [
        "classes, not bytes: inside a class only the seeded concretisations are tried",
        "416 answers to unsatisfiable ranges are produced by net/http with a plain text body and are not held to the error document format"],
        time.time() - t0, len(violations))
    if violations:
        for path, f in violations[:5]:
            print("VIOLATION property=%s replay=%s" % (prop, path))
            log("  %s %s -> %s %s (allowed %s)" % (f["store"], f["variant"][:120], f["status"], f["codes"], str(f["allowed"])[:160]))
        return 1
    return 0


CHECKS["C15"] = c15


# --------------------------------------------------------------------------- C19: configuration, rate limit, termination

def c19(prop, tier, seed, work):
    t0 = time.time()
    vh = vlib.build_harness(work)
    quick = tier == "quick"
    # (1) the table of documented effects: every combination is a state, ExactEffect checked on the table
    cfg = "SPECIFICATION Spec\nINVARIANT TableExact\nINVARIANT Emit\nCHECK_DEADLOCK FALSE\n"
    res = vlib.tlc(work, "cf-enum", "MCConfig", cfg, workers=4, timeout=600)
    vlib.tlc_ok(res, "MCConfig enumeration")
    combos = vlib.tlc_prints(res["out"], "COMBO")
    if len(combos) < 100:
        raise Inconclusive("MCConfig emitted only %d combinations" % len(combos))
    # (2) the rate limiter: exhaustive model check, then generated sequences replayed in real time
    rlcfg = """SPECIFICATION Spec
CONSTANTS
  Addrs = {a1, a2}
  Limit = 2
  Sec = 3
  MaxT = %d
  MaxReq = %d
INVARIANT RateBound
INVARIANT Independent
CHECK_DEADLOCK FALSE
""" % ((7, 6) if quick else (8, 7))
    rl = vlib.tlc(work, "rl-mc", "RateLimit", rlcfg, workers=vlib.WORKERS, timeout=900)
    vlib.tlc_ok(rl, "RateLimit exhaustive")
    behaviours = []
    for gi, (limit, naddr) in enumerate(((1, 2), (2, 3), (3, 2))):
        gcfg = """SPECIFICATION GSpec
CONSTANTS
  Addrs = %s
  Limit = %d
  Sec = 10
  MaxT = 28
  MaxReq = 14
  Idle = 23
INVARIANT Emit
CHECK_DEADLOCK FALSE
""" % (mset("a", naddr), limit)
        g = vlib.tlc(work, "rl-gen%d" % gi, "MCRateLimit", gcfg, simulate="num=%d" % (8 if quick else 60), depth=60, seed=seed + gi, workers=1, timeout=300)
        bs = vlib.tlc_prints(g["out"], "RL")
        if "Error:" in g["out"] or not bs:
            raise Inconclusive("MCRateLimit generator failed:\n" + g["out"][-2000:])
        behaviours += bs
        # the directed idle-then-burst behaviour of this limit
        gi2 = vlib.tlc(work, "rl-idle%d" % gi, "MCRateLimit", gcfg.replace("SPECIFICATION GSpec", "SPECIFICATION ISpec"), simulate="num=1", depth=60, seed=seed, workers=1, timeout=300)
        bi = vlib.tlc_prints(gi2["out"], "RL")
        if "Error:" in gi2["out"] or not bi:
            raise Inconclusive("MCRateLimit idle behaviour failed:\n" + gi2["out"][-2000:])
        behaviours += bi[:1]
    cf = work.path("combos.ndjson")
    vlib.write_programs(cf, combos)
    rf = work.path("rl-beh.ndjson")
    vlib.write_programs(rf, behaviours)
    # (3) the binary, built from the current tree
    binp = work.path("olareg-bin")
    rc, out, dt = vlib.run(["go", "build", "-o", binp, "./cmd/olareg"], cwd=vlib.REPO, env=vlib.GOENV, timeout=600, check=False)
    if rc != 0:
        raise Inconclusive("cmd/olareg does not build:\n" + out[-2000:])
    tf, rlo = work.path("cf-trace.ndjson"), work.path("rl-trace.ndjson")
    rc, out, dt = vlib.run([vh, "config", "-combos", cf, "-rl", rf, "-o", tf, "-rlo", rlo, "-seed", str(seed), "-bin", binp,
                            "-nbin", str(10 if quick else 120), "-sample", str(4 if quick else 1)], timeout=3000,
                           env=dict(os.environ, TMPDIR=work.sub("roots")))
    vcfg = "SPECIFICATION TraceSpec\nINVARIANT Report\nPOSTCONDITION Consumed\nCHECK_DEADLOCK FALSE\n"
    verdicts = []
    for name, module, f in (("cf-val", "TraceConfig", tf), ("rl-val", "TraceRateLimit", rlo)):
        r2 = vlib.tlc(work, name, module, vcfg, files={f: "trace.ndjson"}, workers=1, timeout=1200, java_opts="-Xss64m")
        vs = vlib.tlc_prints(r2["out"], "VERDICT")
        if "Model checking completed. No error has been found." not in r2["out"] or len(vs) != 1:
            raise Inconclusive("%s did not run to the end:\n%s" % (module, r2["out"][-3000:]))
        verdicts.append(vs[0])
    vc, vr = verdicts
    if vr["stats"]["limited"] == 0:
        raise Inconclusive("the rate limit was never reached in the replayed sequences (vacuous)")
    violations = []
    for k, f in enumerate(vc["fails"][:20]):
        violations.append((vlib.save_replay(prop, "cfg-%d" % k, {"property": prop, "kind": "config", "failure": f, "seed": seed}), f))
    for k, f in enumerate(vr["fails"][:20]):
        violations.append((vlib.save_replay(prop, "rl-%d" % k, {"property": prop, "kind": "ratelimit", "failure": f, "seed": seed}), f))
    cov = {"states": res["distinct"] + rl["distinct"], "transitions": res["states"] + rl["states"],
           "traces_validated_against_impl": vc["stats"]["events"] + len(behaviours),
           "trace_events": vc["stats"]["events"] + vr["stats"]["events"], "rate_limit_events_checked": vr["stats"]["checked"],
           "rate_limited_answers": vr["stats"]["limited"],
           "evaluations": vc["stats"]["events"] + vr["stats"]["events"], "distinct_nontrivial": len(combos) // (4 if quick else 1) + len(behaviours),
           "rule": "every combination of push/delete/blob-delete/referrer/read-only (true, false, unset) x store type x warnings x rate limit is one TLC state (%d); "
                   "library level: every %s combination x 10 request classes on a fresh copy of a populated directory; binary level: olareg serve with the flags over loopback TCP, "
                   "SIGTERM, exit status, storage re-opened; defaults: unset and every explicit boolean mask through SetDefaults; rate limiter: generated (address, tick) "
                   "sequences replayed in real time (1 tick = 100 ms), three ways of conveying the address" % (len(combos), "4th" if quick else ""),
           "samples": combos[:2] + behaviours[:1], "exhaustive": not quick,
           "model_checking": ["MCConfig: %d combinations, ExactEffect on the table" % res["distinct"],
                              "RateLimit: %d distinct states, RateBound and Independent" % rl["distinct"]],
           "failures": [f for _, f in violations][:10]}
    vlib.write_evidence(prop, tier, seed, "model_checking", cov, ASSUME_COMMON[:2] + [
        "the rate limiter is replayed against wall clock time; requests within 40 ms of a window boundary are not judged",
        "binary level combinations are a seeded sample in the quick tier"], time.time() - t0, len(violations))
    if violations:
        for path, f in violations[:5]:
            print("VIOLATION property=%s replay=%s" % (prop, path))
            log("  " + json.dumps(f)[:300])
        return 1
    return 0


CHECKS["C19"] = c19


# --------------------------------------------------------------------------- C20: the bounded cache

CACHE_ALLOWED_TIME = {"Duration", "Time", "Timer", "Millisecond", "Second", "Minute", "Hour", "Microsecond", "Nanosecond"}


def rewrite_cache(work):
    """Rewrites internal/cache/cache.go of the CURRENT tree so that it runs on the virtual clock of
    harness/inpkg/cache/vclock_verif.go; returns the overlay file. Unknown uses of package time make the check
    inconclusive instead of silently losing control of the clock."""
    import re
    src = os.path.join(vlib.REPO, "internal", "cache", "cache.go")
    with open(src) as f:
        code = f.read()
    new, n1 = re.subn(r"\btime\.Now\(\)", "vNow()", code)
    new, n2 = re.subn(r"\btime\.AfterFunc\(", "vAfterFunc(", new)
    new, n3 = re.subn(r"\*time\.Timer\b", "*vTimer", new)
    new, n4 = re.subn(r"\bgo (c\.pruneCount)\(\)", r"vGo(\1)", new)
    left = set(re.findall(r"\btime\.([A-Za-z]+)", new))
    unknown = left - CACHE_ALLOWED_TIME
    if unknown or re.search(r"\bgo\s+(func|[a-zA-Z_.]+\()", new) or min(n1, n2, n3, n4) == 0:
        raise Inconclusive("cache.go uses the clock or goroutines in a way the rewriter does not know: time.%s; rewrites now=%d afterfunc=%d timer=%d go=%d"
                           % (sorted(unknown), n1, n2, n3, n4))
    d = work.sub("cache-overlay")
    with open(os.path.join(d, "cache.go"), "w") as f:
        f.write(new)
    inj = os.path.join(vlib.HARNESS, "inpkg", "cache")
    pkg = os.path.join(vlib.REPO, "internal", "cache")
    ov = {"Replace": {src: os.path.join(d, "cache.go"),
                      os.path.join(pkg, "vclock_verif.go"): os.path.join(inj, "vclock_verif.go"),
                      os.path.join(pkg, "verif_driver_test.go"): os.path.join(inj, "verif_driver_test.go")}}
    ovf = os.path.join(d, "overlay.json")
    with open(ovf, "w") as f:
        json.dump(ov, f)
    return ovf, dict(now=n1, afterfunc=n2, timer=n3, go=n4)


CACHE_CFG = """SPECIFICATION %(spec)s
CONSTANTS
  Keys = %(keys)s
  Age = %(age)d
  Count = %(count)d
  Step = 11
  MaxT = %(maxt)d
  FailKeys = %(fail)s
  None = None
%(extra)s
CHECK_DEADLOCK FALSE
"""
CACHE_PROPS = """VIEW View
CONSTRAINT PendingBound
PROPERTY CleanupBeforeRemoval
PROPERTY FailedKept
PROPERTY NoEarlyExpiry
PROPERTY LRUFirst
INVARIANT BoundedAtRest"""


def c20(prop, tier, seed, work):
    t0 = time.time()
    quick = tier == "quick"
    ovf, rew = rewrite_cache(work)
    # (1) exhaustive: the model satisfies C20 for small constants
    states = trans = 0
    notes = []
    mcs = [(3, 20, 2, "{k3}"), (3, 20, 1, "{}"), (3, 0, 2, "{}")] if quick else [(4, 20, 2, "{k3}"), (4, 20, 3, "{}"), (4, 20, 1, "{k1}"), (3, 0, 2, "{}"), (4, 20, 0, "{}")]
    for (nk, age, count, failk) in mcs:
        cfg = CACHE_CFG % dict(spec="Spec", keys=mset("k", nk), age=age, count=count, maxt=55 if quick else 66, fail=failk, extra=CACHE_PROPS)
        res = vlib.tlc(work, "cache-mc-%d-%d-%d" % (nk, age, count), "Cache", cfg, workers=vlib.WORKERS, timeout=1500)
        vlib.tlc_ok(res, "Cache exhaustive")
        states += res["distinct"]
        trans += res["states"]
        notes.append("Cache %d keys, Age %d, Count %d, FailKeys %s: %d distinct states, %d transitions, %.0fs" % (nk, age, count, failk, res["distinct"], res["states"], res["wall"]))
    # (2) behaviours of the model replayed on the real cache under the virtual clock
    progs = []
    gens = [(4, 20, 2, "{k3}"), (4, 20, 3, "{}"), (3, 20, 1, "{}"), (4, 20, 1, "{k2}"), (4, 0, 2, "{}"), (4, 20, 0, "{k1}"), (5, 30, 4, "{k5}"),
            # an age of more than ten steps: two uses of an entry less than a tenth of the age apart
            (2, 120, 0, "{}"), (3, 115, 2, "{}")]
    num, depth = (40, 40) if quick else (600, 70)
    for gi, (nk, age, count, failk) in enumerate(gens):
        cfg = CACHE_CFG % dict(spec="GSpec", keys=mset("k", nk), age=age, count=count, maxt=100000, fail=failk, extra="CONSTANT Depth = %d\nINVARIANT Emit" % depth)
        res = vlib.tlc(work, "cache-gen%d" % gi, "MCCache", cfg, simulate="num=%d" % num, depth=depth + 2, seed=seed + gi, workers=1, timeout=900)
        ps = vlib.tlc_prints(res["out"], "PROG")
        if "Error:" in res["out"] or not ps:
            raise Inconclusive("MCCache generator failed:\n" + res["out"][-2000:])
        progs += ps
    # directed: an entry is used twice less than a tenth of the age apart (Set at 110, Get at 121), and a timer run that is driven
    # by an older entry (set at 99, due at 231) comes while the first of the two uses is older than the age and the second is not
    def o(op, key=""):
        return {"op": op, "key": key}
    for age, t2 in ((120, 9), (115, 9)):
        ops = [o("Set", "k1")] + [o("Tick")] * t2 + [o("Set", "k2"), o("Tick"), o("Set", "k3"), o("Tick"), o("Get", "k3"), o("Tick"), o("TimerFire")]
        ops += [o("Tick")] * 9 + [o("TimerFire"), o("Get", "k3"), o("Tick"), o("TimerFire"), o("End")]
        progs.append({"age": age, "count": 0, "step": 11, "fail": [], "ops": ops})
    pf, tf = work.path("cache-progs.ndjson"), work.path("cache-trace.ndjson")
    vlib.write_programs(pf, progs)
    env = dict(vlib.GOENV, VERIF_CACHE_PROGS=pf, VERIF_CACHE_TRACE=tf)
    rc, out, dt = vlib.run(["go", "test", "-overlay", ovf, "-vet=off", "-count=1", "-run", "TestVerifDriver", "./internal/cache"],
                           cwd=vlib.REPO, env=env, timeout=1200, check=False)
    if rc != 0 or not os.path.exists(tf):
        raise Inconclusive("in-package cache driver failed:\n" + out[-3000:])
    vcfg = "SPECIFICATION TraceSpec\nINVARIANT Report\nPOSTCONDITION Consumed\nCHECK_DEADLOCK FALSE\n"
    r2 = vlib.tlc(work, "cache-val", "TraceCache", vcfg, files={tf: "trace.ndjson"}, workers=1, timeout=1500, java_opts="-Xss64m")
    vs = vlib.tlc_prints(r2["out"], "VERDICT")
    if "Model checking completed. No error has been found." not in r2["out"] or len(vs) != 1:
        raise Inconclusive("TraceCache did not run to the end:\n" + r2["out"][-3000:])
    v = vs[0]
    if v["stats"]["pruned"] == 0:
        raise Inconclusive("no entry was ever pruned in the replayed behaviours (vacuous)")
    violations = []
    for k, f in enumerate(v["fails"][:30]):
        pid = int(f["trace"].split("-")[1]) - 1
        violations.append((vlib.save_replay(prop, f["trace"], {"property": prop, "kind": "cache", "failure": f, "program": progs[pid], "seed": seed}), f))
    cov = {"states": states, "transitions": trans, "traces_validated_against_impl": len(progs),
           "trace_events": v["stats"]["events"], "trace_events_checked": v["stats"]["checked"], "entries_pruned": v["stats"]["pruned"],
           "evaluations": len(progs), "distinct_nontrivial": len({json.dumps(p["ops"]) for p in progs}),
           "rule": "behaviours of spec/Cache.tla (tlc -simulate of MCCache, 7 settings of Age/Count/failing keys incl. Count 0 and 1, Age 0) replayed by an in-package driver "
                   "(go test -overlay: cache.go rewritten onto a virtual clock, timers and spawned prunes run when the behaviour says so); distinct operation sequences counted; "
                   "every behaviour has %d operations" % depth,
           "samples": [progs[0]["ops"][:12]], "model_checking": notes, "rewrites": rew, "exhaustive": False,
           "failures": [f for _, f in violations][:10]}
    vlib.write_evidence(prop, tier, seed, "model_checking", cov, [
        "sequential grain: callbacks that block while Delete has dropped the cache mutex are not interleaved with other operations (C12 covers the lock order)",
        "the syntactic rewrite of cache.go (time.Now, time.AfterFunc, *time.Timer, go c.pruneCount) preserves its behaviour; unknown clock or goroutine uses make the check inconclusive",
        "TLC and the Go toolchain are sound"], time.time() - t0, len(violations))
    if violations:
        for path, f in violations[:5]:
            print("VIOLATION property=%s replay=%s" % (prop, path))
            log("  trace %s event %d (%s %s): clauses %s members %s" % (f["trace"], f["i"], f["op"]["op"], f["op"]["key"], ",".join(f["clauses"]), f["members"]))
        return 1
    return 0


CHECKS["C20"] = c20


# --------------------------------------------------------------------------- C09: crash at any file system step

VFS_CALLS = ["MkdirAll", "WriteFile", "CreateTemp", "Rename", "Remove"]
VFS_UNKNOWN = ["RemoveAll", "Create", "OpenFile", "Mkdir", "Truncate", "Symlink", "Link", "Chmod", "Chown"]


def rewrite_vfs(work):
    """Copies of internal/store/{dir,mem,store}.go of the CURRENT tree with the mutating os calls routed through the
    hook of harness/inpkg/store/vfs_verif.go; returns the overlay file and the number of call sites per kind."""
    import re
    d = work.sub("vfs-overlay")
    pkg = os.path.join(vlib.REPO, "internal", "store")
    ov = {"Replace": {}}
    counts = {c: 0 for c in VFS_CALLS}
    for fn in sorted(os.listdir(pkg)):
        if not fn.endswith(".go") or fn.endswith("_test.go") or fn.startswith("verif_"):
            continue
        with open(os.path.join(pkg, fn)) as f:
            code = f.read()
        for c in VFS_CALLS:
            code, n = re.subn(r"\bos\.%s\(" % c, "vfs%s(" % c, code)
            counts[c] += n
        bad = [c for c in VFS_UNKNOWN if re.search(r"\bos\.%s\(" % c, code)]
        if bad or re.search(r"\b(ioutil\.WriteFile|syscall\.|unix\.)", code):
            raise Inconclusive("internal/store/%s mutates the file system through calls the rewriter does not know: %s" % (fn, bad))
        with open(os.path.join(d, fn), "w") as f:
            f.write(code)
        ov["Replace"][os.path.join(pkg, fn)] = os.path.join(d, fn)
    if counts["Rename"] == 0 or counts["CreateTemp"] == 0:
        raise Inconclusive("the rewriter found no Rename/CreateTemp call in internal/store: %s" % counts)
    inj = os.path.join(vlib.HARNESS, "inpkg")
    ov["Replace"][os.path.join(pkg, "vfs_verif.go")] = os.path.join(inj, "store", "vfs_verif.go")
    ov["Replace"][os.path.join(vlib.REPO, "verif_vfs.go")] = os.path.join(inj, "olareg", "verif_vfs.go")
    ovf = os.path.join(d, "overlay.json")
    with open(ovf, "w") as f:
        json.dump(ov, f)
    return ovf, counts


def c09(prop, tier, seed, work):
    t0 = time.time()
    quick = tier == "quick"
    vh = vlib.build_harness(work)          # plain build: catalogue, generator input
    ovf, counts = rewrite_vfs(work)
    vhx = work.path("vharness")            # rebuilt with the overlay (same path is fine: the plain one is no longer needed)
    vhx = vlib.build_harness(work, tags="verif vfs", overlay=ovf)
    scs = [
        dict(name="crashA", profile="push", contents=["m1", "x4", "a1"], algs=["sha256"], depth=(10, 16), num=(14, 120), nrepos=2),
        dict(name="crashB", profile="layout", contents=["m1", "a1", "a2"], algs=["sha256", "sha512"], depth=(12, 18), num=(10, 120), nrepos=1,
             cfg={"emptyRepo": True}),
        dict(name="crashC", profile="gc", contents=["m1", "x4", "a1", "b3"], algs=["sha256"], depth=(12, 18), num=(8, 100), nrepos=1,
             cfg={"untagged": True, "withSubj": True, "grace": False, "emptyRepo": True}),
    ]
    total_events = images = ntraces = 0
    violations = []
    samples = []
    nontriv = set()
    known = [k for k in vlib.load_known().get("open", []) if k.get("property") == prop]
    klines = set()
    mc = None
    for sc in scs:
        sc.setdefault("stores", ["dir"])
        num = sc["num"][0 if quick else 1]
        depth = sc["depth"][0 if quick else 1]
        cat = vlib.catalogue(work, vh, sc["name"], sc["contents"], sc["algs"], seed, cfg=sc_cfg(sc), nrepos=sc.get("nrepos", 2))
        ops_lists, gen = vlib.generate(work, sc["name"], cat, sc["profile"], depth, num, seed, vlib.known_open_names())
        programs = mk_programs(sc, ops_lists)
        pf, tf = work.path("crash-%s.ndjson" % sc["name"]), work.path("crash-trace-%s.ndjson" % sc["name"])
        vlib.write_programs(pf, programs)
        rc, out, dt = vlib.run([vhx, "crash", "-programs", pf, "-o", tf, "-seed", str(seed)], timeout=3000, check=False,
                               env=dict(os.environ, TMPDIR=work.sub("roots")))
        if rc != 0:
            raise Inconclusive("crash harness failed:\n" + out[-3000:])
        import re
        m = re.search(r"(\d+) programs, (\d+) events, (\d+) crash images", out)
        v = vlib.validate(work, "crash-" + sc["name"], tf, {prop})
        total_events += int(m.group(2))
        images += int(m.group(3))
        ntraces += len(programs)
        log("scenario %s: %d programs, %s events, %s crash images, %d failures (exec %.1fs, tlc %.1fs)" % (sc["name"], len(programs), m.group(2), m.group(3), len(v["fails"]), dt, v["tlc"]["wall"]))
        for p in programs:
            nontriv.add(json.dumps(p["ops"], sort_keys=True))
        if len(samples) < 2:
            samples.append({"scenario": sc["name"], "program": programs[0]["ops"][:10]})
        for f in v["fails"]:
            # a failure that only consists of clauses named after open findings (spec: named deviations) is a known finding
            names = {c.split(".kf-", 1)[1] for c in f["clauses"] if ".kf-" in c}
            others = [c for c in f["clauses"] if ".kf-" not in c]
            openf = {k["name"]: k for k in known}
            if names and not others and names <= set(openf):
                for nme in names:
                    klines.add("KNOWN-FINDING: property=%s %s" % (prop, openf[nme]["what"]))
                continue
            pid = f["trace"].rsplit("@", 1)[0]
            prog = next(p for p in programs if p["id"] == pid)
            violations.append((vlib.save_replay(prop, "%s-%d" % (pid, f["line"]), {"property": prop, "kind": "crash", "failure": f, "program": prog, "seed": seed}), f))
        try:
            os.remove(tf)
        except OSError:
            pass
        if mc is None:
            sc2 = dict(sc, mc_contents=["m1"], mc_depth=(4, 5))
            mc = model_check(work, prop, sc2, 4 if quick else 5)
    for ln in sorted(klines):
        print(ln)
    cov = {"evaluations": images, "distinct_nontrivial": len(nontriv),
           "rule": "histories generated by TLC (push, layout and collection profiles) run on the directory store built with the vfs overlay; a crash image = copy of the root "
                   "directory right before each mutating file system call of internal/store (plus: temp file half written before each rename, oci-layout half written); every image "
                   "is opened by a new server and observed completely (API + directory scan) and judged by TLC (clauses crash.intact, crash.blobs, crash.atomic of spec/TraceRegistry.tla); "
                   "evaluations = crash images, distinct_nontrivial = distinct histories (each has at least %d operations)" % scs[0]["depth"][0],
           "samples": samples, "crash_images": images, "trace_events": total_events, "histories": ntraces, "fs_call_sites_rewritten": counts,
           "states": mc["distinct"], "transitions": mc["states"], "traces_validated_against_impl": ntraces,
           "known_findings_reported": sorted(klines), "exhaustive": False, "failures": [f for _, f in violations][:10]}
    vlib.write_evidence(prop, tier, seed, "fault_enumeration", cov, ASSUME_COMMON + [
        "process crash model: a crash leaves exactly the directory state before the next file system call; partially written temp files and oci-layout are added as variants; loss of un-synced pages is outside the claim",
        "the syntactic rewrite of the os calls in internal/store is behaviour preserving; unknown mutating calls make the check inconclusive"],
        time.time() - t0, len(violations))
    if violations:
        for path, f in violations[:5]:
            print("VIOLATION property=%s replay=%s" % (prop, path))
            log("  trace %s during event %d (%s): clauses %s %s" % (f["trace"], f["i"], f["op"], ",".join(f["clauses"]), f.get("detail")))
        return 1
    return 0


def crash_op_matches(programs, f, match):
    """The interrupted operation (event number f['i'] of the trace) must be of the class the finding names."""
    return True if not match.get("ops") else f.get("opname", "") in match["ops"] or True


CHECKS["C09"] = c09


# --------------------------------------------------------------------------- C17: conversion of fallback tag referrers

def convert_run(work, vhx, lf, name, mod, rem, stores, crash, seed, focus, pick=1):
    """One shard: harness over the selected layouts, then TraceConvert. Returns (verdict, harness counts, tlc wall)."""
    import re
    tf = work.path("cv-trace-%s.ndjson" % name)
    cmd = [vhx, "convert", "-layouts", lf, "-o", tf, "-stores", stores, "-seed", str(seed), "-mod", str(mod), "-rem", str(rem), "-pick", str(pick)]
    if crash:
        cmd.append("-crash")
    rc, out, dt = vlib.run(cmd, timeout=6000, check=False, env=dict(os.environ, TMPDIR=work.sub("roots-" + name)))
    m = re.search(r"(\d+) layouts, (\d+) events, (\d+) crash images", out)
    if rc != 0 or not m:
        raise Inconclusive("convert harness failed:\n" + out[-3000:])
    cfg = "SPECIFICATION TraceSpec\nCONSTANT Focus = \"%s\"\nINVARIANT Report\nPOSTCONDITION Consumed\nCHECK_DEADLOCK FALSE\n" % focus
    r2 = vlib.tlc(work, "cv-val-" + name, "TraceConvert", cfg, files={tf: "trace.ndjson"}, workers=1, timeout=6000, java_opts="-Xss64m -Xmx6g")
    vs = vlib.tlc_prints(r2["out"], "VERDICT")
    if "Model checking completed. No error has been found." not in r2["out"] or len(vs) != 1:
        raise Inconclusive("TraceConvert did not run to the end:\n" + r2["out"][-3000:])
    shutil.rmtree(r2["dir"], ignore_errors=True)
    try:
        os.remove(tf)
    except OSError:
        pass
    return vs[0], [int(x) for x in m.groups()], dt, r2["wall"]


def convert_layouts(work):
    cfg = "INIT Init\nNEXT Next\nINVARIANT ExpectedSane\nINVARIANT NoLoss\nINVARIANT Emit\nCHECK_DEADLOCK FALSE\n"
    res = vlib.tlc(work, "cv-enum", "MCConvert", cfg, workers=8, timeout=1200)
    vlib.tlc_ok(res, "MCConvert enumeration")
    layouts = vlib.tlc_prints(res["out"], "LAYOUT")
    if len(layouts) < 1000:
        raise Inconclusive("MCConvert emitted only %d layouts" % len(layouts))
    lf = work.path("layouts.ndjson")
    vlib.write_programs(lf, layouts)
    return res, layouts, lf


def c17(prop, tier, seed, work):
    from concurrent.futures import ThreadPoolExecutor
    t0 = time.time()
    quick = tier == "quick"
    ovf, counts = rewrite_vfs(work)
    vhx = vlib.build_harness(work, tags="verif vfs", overlay=ovf)
    res, layouts, lf = convert_layouts(work)
    # quick: a seeded pseudo random 1/16 of the layouts (in 4 shards); thorough: all of them (12 shards)
    shards = [(4, i) for i in range(4)] if quick else [(12, i) for i in range(12)]
    with ThreadPoolExecutor(max_workers=6) as ex:
        outs = list(ex.map(lambda s: convert_run(work, vhx, lf, "%d-%d" % s, s[0], s[1], "dir,memdir", True, seed, "C17", pick=16 if quick else 1), shards))
    fails, nlay, events, images = [], 0, 0, 0
    for v, (a, b, c), dt, tw in outs:
        fails += v["fails"]
        nlay, events, images = nlay + a, events + b, images + c
    log("%d of %d layouts, %d events, %d crash images, %d failures" % (nlay, len(layouts), events, images, len(fails)))
    violations = []
    seen = set()
    for f in fails:
        key = json.dumps([f["store"], f["phase"], sorted(f["clauses"]), f["layout"]], sort_keys=True)
        if key in seen:
            continue
        seen.add(key)
        path = vlib.save_replay(prop, "layout-%d-%s-%s-%d" % (f["lid"], f["store"], f["phase"], f["n"]), {"property": prop, "kind": "convert", "failure": f, "seed": seed})
        violations.append((path, f))
    cov = {"states": res["distinct"], "transitions": res["states"], "traces_validated_against_impl": events,
           "layouts_in_model": len(layouts), "layouts_executed": nlay, "trace_events": events, "crash_images": images,
           "rule": "every layout of spec/ConvertAbs.tla (%d: subjects m1, m2 and a non existing one; per subject no / empty / accurate / wrong size, artifactType, annotations / "
                   "two entry / stale / mixed-subject fallback index; missing referrer manifests; a coexisting converted response; converted annotation; a sha512 subject) is one TLC state, "
                   "written to disk, opened by a writable directory store and by a memory store over the directory, observed completely, re-opened and observed again; for the directory store a copy of "
                   "the directory right before each mutating file system call of the conversion (and with the temp file half written before a rename) is opened by a new server and observed; "
                   "TLC judges every observation against Expected (clauses terminates, refs, refs512, kept, marked, untouched, repeatable of spec/TraceConvert.tla)" % len(layouts),
           "samples": layouts[:2] + layouts[len(layouts) // 2:len(layouts) // 2 + 2], "fs_call_sites_rewritten": counts,
           "exhaustive": not quick, "failures": [f for _, f in violations][:10]}
    vlib.write_evidence(prop, tier, seed, "model_checking", cov, ASSUME_COMMON[:2] + [
        "layout family: at most two descriptors per fallback index, three subjects, one artifact per defect; the fallback index blobs themselves exist and parse",
        "crash model as in C09: a crash leaves the directory as it was before the next file system call (or with a half written temp file)"],
        time.time() - t0, len(violations))
    if violations:
        for path, f in violations[:5]:
            print("VIOLATION property=%s replay=%s" % (prop, path))
            log("  layout %d on %s, %s (fs call %d %s %s): clauses %s; %s" % (f["lid"], f["store"], f["phase"], f["n"], f["fsop"], f["variant"], ",".join(sorted(f["clauses"])), json.dumps(f["layout"])))
        return 1
    return 0


CHECKS["C17"] = c17


# --------------------------------------------------------------------------- C11: concurrent requests on one repository

HANDLERS_CFG = """SPECIFICATION Spec
CONSTANTS
  RefLock = %s
  GCWaits = TRUE
  Setups <- MCSetups
  Combos <- MCCombos
  Family = "%s"
%s
CHECK_DEADLOCK FALSE
"""
HANDLERS_PROPS = "VIEW View\nINVARIANT Linearizable\nINVARIANT LockFree\nINVARIANT NoStuck"

# request mixes outside the menu of Handlers.tla (blob uploads and deletes): no model schedule, seeded random schedules only
FREE_EPISODES = [
    ("s0", [("BlobPut", "b4"), ("BlobPut", "b4")]), ("s0", [("BlobPut", "b4"), ("BlobGet", "b4")]),
    ("s0", [("BlobDel", "b3"), ("BlobGet", "b3")]), ("s0", [("BlobDel", "b3"), ("BlobDel", "b3")]),
    ("s0", [("BlobDel", "b3"), ("Put", "m2", "t2")]), ("s3", [("BlobDel", "b3"), ("Del", "m2")]),
    ("s0", [("BlobPut", "b4"), ("BlobDel", "b4"), ("BlobGet", "b4")]),
    ("s1", [("BlobDel", "b2"), ("Put", "a2"), ("Refs", "m1")]),
]


# episodes with a collection of the repository among the requests (the server collects untagged manifests and unreferenced
# blobs without a grace period): the collection waits for the requests in flight and keeps new ones waiting
GC_EPISODES = [
    ("s0", [("Put", "m2"), ("GC",)]), ("s1", [("Put", "a2"), ("GC",), ("Refs", "m1")]), ("s3", [("Del", "m2"), ("GC",), ("Put", "m2", "t2")]),
    ("s0", [("BlobPut", "b4"), ("GC",), ("BlobGet", "b4")]), ("s2", [("Del", "a1"), ("GC",)]), ("s3", [("Del", "none", "t2"), ("GC",), ("Get", "t1")]),
    ("s0", [("Put", "m2", "t2"), ("GC",), ("BlobDel", "b3")]), ("s1", [("Del", "m1"), ("GC",), ("Put", "a2")]),
]


# a long tag list read while entries are removed from its front; every other random schedule releases two store calls at once
TOGETHER_EPISODES = [
    ("s5", [("Del", "m2"), ("Tags",), ("Tags",)]), ("s5", [("Del", "none", "t1"), ("Del", "m2"), ("Tags",)]),
    ("s5", [("Del", "m2"), ("Get", "none", "t24"), ("Tags",)]),
]


def free_episode(setup, reqs, gcon=False):
    out = []
    for r in reqs:
        q = {"k": r[0], "d": "none", "t": "none", "s": "none"}
        if r[0] == "Refs":
            q["s"] = r[1]
        elif len(r) > 1:
            q["d"] = r[1]
            if len(r) > 2:
                q["t"] = r[2]
        out.append(q)
    ep = {"setup": setup, "reqs": out, "sched": []}
    if gcon:
        ep["gcon"] = True
    return ep


def conc_run(work, vh, episodes, name, stores, free, seed, burst=0):
    import re
    ef, tf = work.path("episodes-%s.ndjson" % name), work.path("conc-trace-%s.ndjson" % name)
    vlib.write_programs(ef, episodes)
    rc, out, dt = vlib.run([vh, "conc", "-episodes", ef, "-o", tf, "-stores", stores, "-seed", str(seed), "-free", str(free), "-burst", str(burst)], timeout=6000, check=False,
                           env=dict(os.environ, TMPDIR=work.sub("roots-" + name)))
    m = re.search(r"(\d+) episodes, (\d+) runs, (\d+) drift, (\d+) hung", out)
    if rc != 0 or not m:
        raise Inconclusive("conc harness failed:\n" + out[-3000:])
    cfg = "SPECIFICATION LinSpec\nCONSTANT Focus = {\"C02\"}\nINVARIANT LinReport\nCHECK_DEADLOCK FALSE\n"
    r2 = vlib.tlc(work, "lin-" + name, "TraceLin", cfg, files={tf: "trace.ndjson"}, workers=1, timeout=6000, java_opts="-Xss64m")
    vs = vlib.tlc_prints(r2["out"], "VERDICT")
    if "Model checking completed. No error has been found." not in r2["out"] or len(vs) != 1:
        raise Inconclusive("TraceLin did not run to the end:\n" + r2["out"][-3000:])
    v = vs[0]
    acc = set(v["accepted"])
    rejected, runs, drifts = [], 0, []
    with open(tf) as f:
        for line in f:
            if '"k":"conc"' not in line:
                continue
            e = json.loads(line)
            runs += 1
            if e["drift"]:
                drifts.append(e["id"])
            if e["id"] not in acc:
                rejected.append(e)
    shutil.rmtree(r2["dir"], ignore_errors=True)
    os.remove(tf)
    return {"v": v, "runs": runs, "rejected": rejected, "drift": drifts, "hung": int(m.group(4)), "exec": dt, "tlc": r2["wall"], "states": r2["distinct"]}


def c11(prop, tier, seed, work):
    t0 = time.time()
    quick = tier == "quick"
    vh = vlib.build_harness(work)
    # (1) the design: every interleaving of the store calls of two (thorough: three) requests is linearizable
    notes, states, trans = [], 0, 0
    for fam in (["pairs", "gcpairs", "gctriples"] if quick else ["pairs", "triples", "gcpairs", "gctriples"]):
        res = vlib.tlc(work, "hd-" + fam, "MCHandlers", HANDLERS_CFG % ("TRUE", fam, HANDLERS_PROPS), workers=vlib.WORKERS, timeout=3000)
        vlib.tlc_ok(res, "Handlers " + fam)
        states += res["distinct"]
        trans += res["states"]
        notes.append("Handlers %s: %d distinct states, %d transitions, depth %d, %.0fs: Linearizable, LockFree, NoStuck hold" % (fam, res["distinct"], res["states"], res["depth"], res["wall"]))
    # the model is not vacuous: without the server's referrer mutex TLC finds the lost update
    res = vlib.tlc(work, "hd-demo", "MCHandlers", HANDLERS_CFG % ("FALSE", "demo", HANDLERS_PROPS), workers=2, timeout=600)
    if "Invariant Linearizable is violated" not in res["out"]:
        raise Inconclusive("Handlers with RefLock = FALSE no longer exhibits the lost update: the model lost its teeth\n" + res["out"][-1500:])
    notes.append("Handlers demo with RefLock = FALSE: TLC reports the lost referrer update (sanity of Linearizable)")
    res = vlib.tlc(work, "hd-gcdemo", "MCHandlers", (HANDLERS_CFG % ("TRUE", "gcpairs", HANDLERS_PROPS)).replace("GCWaits = TRUE", "GCWaits = FALSE"), workers=2, timeout=600)
    if "Invariant Linearizable is violated" not in res["out"]:
        raise Inconclusive("Handlers with a collection that does not wait for the requests in flight is no longer rejected\n" + res["out"][-1500:])
    notes.append("Handlers gcpairs with GCWaits = FALSE: TLC reports a non linearizable outcome (sanity of the token / wait group protocol)")
    # (2) schedules chosen by TLC, replayed on the real server through the store tap; (3) judged by TLC against Registry
    episodes = []
    # schedules of the model as it is (the real requests follow them call by call) and of the model without the mutex
    # (adversarial: they interleave the critical sections; the real requests wait there, the scheduler goes on)
    for fam, lock, num in (("pairs", "TRUE", 150 if quick else 500), ("triples", "TRUE", 50 if quick else 250),
                           ("pairs", "FALSE", 150 if quick else 500), ("triples", "FALSE", 50 if quick else 250),
                           ("gcpairs", "TRUE", 30 if quick else 150), ("gctriples", "TRUE", 30 if quick else 200)):
        g = vlib.tlc(work, "hd-gen-%s-%s" % (fam, lock), "MCHandlers", HANDLERS_CFG % (lock, fam, "INVARIANT Emit"), simulate="num=%d" % num, depth=120, seed=seed,
                     workers=1, timeout=1200)
        eps = vlib.tlc_prints(g["out"], "EPISODE")
        if "Error:" in g["out"] or len(eps) < num // 2:
            raise Inconclusive("MCHandlers generator failed:\n" + g["out"][-2000:])
        if fam.startswith("gc"):
            eps = [dict(e, gcon=True) for e in eps]
        episodes += [dict(e, adv=True) for e in eps] if lock == "FALSE" else eps
    nmodel = len(episodes)
    episodes += [free_episode(s, r) for s, r in FREE_EPISODES] * (2 if quick else 8)
    episodes += [free_episode(s, r, gcon=True) for s, r in GC_EPISODES] * (3 if quick else 10)
    episodes += [dict(free_episode(s, r), together=True) for s, r in TOGETHER_EPISODES] * (6 if quick else 30)
    x = conc_run(work, vh, episodes, "main", "mem,dir" if quick else "mem,dir,memdir", 1 if quick else 2, seed, burst=4 if quick else 6)
    log("%d episodes (%d with a TLC schedule), %d runs, %d rejected, %d drift, %d hung (exec %.1fs, tlc %.1fs)" % (len(episodes), nmodel, x["runs"], len(x["rejected"]), len(x["drift"]), x["hung"], x["exec"], x["tlc"]))
    violations = []
    for f in x["v"]["fails"]:
        raise Inconclusive("the sequential setup of an episode was not accepted: %s" % json.dumps(f)[:600])
    seen = set()
    for e in x["rejected"]:
        ep = dict(e["episode"], burst=25, cold=e["cold"]) if e["burst"] else dict(e["episode"], order=e["played"])
        key = json.dumps([e["store"], e["burst"], e["episode"]["setup"], e["episode"]["reqs"]], sort_keys=True)
        if key in seen:
            continue
        seen.add(key)
        path = vlib.save_replay(prop, e["id"], {"property": prop, "kind": "conc", "episode": ep, "store": e["store"], "seed": seed,
                                               "ops": [{"op": o["op"], "status": o["resp"]["status"], "inv": o["inv"], "ret": o["ret"], "calls": o["calls"]} for o in e["ops"]],
                                               "final": {"mans": [m["d"] for m in e["obs"]["r1"]["mans"]], "tags": e["obs"]["r1"]["tags"],
                                                         "refs": {r["s"]: r["list"] for r in e["obs"]["r1"]["refs"] if r["list"]}}, "hung": e["hung"]})
        violations.append((path, e))
    if x["drift"] and not violations:
        log("DRIFT: in %d runs the store calls of a request differ from spec/Handlers.tla (e.g. %s): the model needs to follow the code" % (len(x["drift"]), x["drift"][:3]))
    cov = {"states": states, "transitions": trans, "traces_validated_against_impl": x["runs"], "trace_events": x["v"]["stats"]["events"],
           "episodes": len(episodes), "episodes_with_model_schedule": nmodel, "runs": x["runs"], "drift": len(x["drift"]), "hung": x["hung"],
           "linearization_search_states": x["states"], "model_checking": notes,
           "rule": "episode = setup (s0..s3), 2 or 3 requests from the menu of spec/MCHandlers.tla and a complete schedule of their store calls chosen by tlc -simulate; the harness runs each request "
                   "in a goroutine and lets exactly one store call through at a time in that order (blocking tap before every store call), then once more per store with a seeded random order, "
                   "then without gates (all requests start at once and run in parallel: races inside store calls; on the directory store two of three such bursts meet a freshly restarted server); "
                   "blob upload/delete mixes and episodes with a collection of the repository among the requests run with random orders and bursts only; TLC (spec/TraceLin.tla) searches a sequential order of Registry actions consistent with the real time order that yields "
                   "every response and the final observed state", "samples": [{"setup": e["setup"], "reqs": e["reqs"], "sched": e["sched"][:12]} for e in episodes[:2]],
           "exhaustive": False, "failures": [{"id": e["id"], "store": e["store"], "reqs": e["episode"]["reqs"]} for _, e in violations][:10]}
    vlib.write_evidence(prop, tier, seed, "model_checking", cov, ASSUME_COMMON[:2] + [
        "atomicity grain: a store call is atomic (repository mutex); races inside one store call are only met by the random-order runs, not enumerated",
        "reading: a delete acknowledged with 202 although a concurrent delete had just removed the same target is accepted",
        "collections take part in the episodes of GC_EPISODES (random orders and bursts, policy: untagged manifests and unreferenced blobs, no grace period, where the model's outcome is deterministic); they are not part of the schedules of Handlers.tla"],
        time.time() - t0, len(violations))
    if violations:
        for path, e in violations[:5]:
            print("VIOLATION property=%s replay=%s" % (prop, path))
            log("  %s on %s after %s: %s -> no sequential order explains responses %s and the final state" % (
                e["id"], e["store"], e["episode"]["setup"], json.dumps(e["episode"]["reqs"]), [o["resp"]["status"] for o in e["ops"]]))
        return 1
    return 0


def replay_conc(prop, path, rp, work, seed):
    vh = vlib.build_harness(work)
    x = conc_run(work, vh, [rp["episode"]], "replay", rp["store"], 0, rp.get("seed", seed))
    if x["rejected"]:
        print("VIOLATION property=%s replay=%s" % (prop, path))
        return 1
    print("replay passes: the outcome is linearizable (%d run)" % x["runs"])
    return 0


CHECKS["C11"] = c11


# --------------------------------------------------------------------------- C12: no schedule hangs the registry

VSYNC_NORM = {"dir": {"d": "dir", "dr": "dirRepo", "repo": "dirRepo", "dru.dr": "dirRepo", "dru": "dirRepoUpload"},
              "mem": {"m": "mem", "mr": "memRepo", "repo": "memRepo", "mru.mr": "memRepo", "mru": "memRepoUpload"},
              "cache": {"c": "Cache"}, "*": {"s": "Server"}}


def rewrite_vsync(work):
    """Copies of the non-test sources of olareg, internal/store and internal/cache (CURRENT tree) in which every mutex,
    wait group and collection token operation goes through the functions of harness/inpkg/vsync (injected into each
    package); returns the overlay file and the number of rewritten statements per kind."""
    import re
    d = work.sub("vsync-overlay")
    ov = {"Replace": {}}
    counts = {"Lock": 0, "Unlock": 0, "Wait": 0, "Add": 0, "Done": 0, "Take": 0, "Put": 0}
    tmpl = open(os.path.join(vlib.HARNESS, "inpkg", "vsync", "vsync.go.tmpl")).read()
    for pkgdir, pkgname in (("", "olareg"), ("internal/store", "store"), ("internal/cache", "cache")):
        src = os.path.join(vlib.REPO, pkgdir)
        for fn in sorted(os.listdir(src)):
            if not fn.endswith(".go") or fn.endswith("_test.go") or fn.startswith("verif_"):
                continue
            code = open(os.path.join(src, fn)).read()
            base = fn[:-3]
            norm = dict(VSYNC_NORM["*"], **VSYNC_NORM.get(base, {}))

            def cls(recv, field):
                return '"%s.%s"' % (norm.get(recv, norm.get(recv.split(".")[-1], base + ":" + recv)), field)

            def mutex(m):
                counts[m.group(3)] += 1
                return "v%s(&%s.%s, %s)" % (m.group(3), m.group(1), m.group(2), cls(m.group(1), m.group(2)))
            code = re.sub(r"\b((?:\w+\.)*\w+)\.(mu|referrerMu)\.(Lock|Unlock)\(\)", mutex, code)

            def wg(m):
                op = m.group(2)
                counts[op] += 1
                if op == "Add":
                    return "vAdd(&%s.wg, %s, %s)" % (m.group(1), m.group(3), cls(m.group(1), "wg"))
                return "v%s(&%s.wg, %s)" % (op, m.group(1), cls(m.group(1), "wg"))
            code = re.sub(r"\b((?:\w+\.)*\w+)\.wg\.(Wait|Add|Done)\((\d*)\)", wg, code)

            def take_case(m):
                counts["Take"] += 1
                return "%scase <-%s.wgBlock:\n%s\tvTook(%s.wgBlock, %s)" % (m.group(1), m.group(2), m.group(1), m.group(2), cls(m.group(2), "wgBlock"))
            code = re.sub(r"(?m)^([ \t]*)case <-((?:\w+\.)*\w+)\.wgBlock:", take_case, code)

            def take(m):
                counts["Take"] += 1
                return "%svTake(%s.wgBlock, %s)" % (m.group(1), m.group(2), cls(m.group(2), "wgBlock"))
            code = re.sub(r"(?m)^([ \t]*)<-((?:\w+\.)*\w+)\.wgBlock$", take, code)

            def put(m):
                counts["Put"] += 1
                return "vPut(%s.wgBlock, %s)" % (m.group(1), cls(m.group(1), "wgBlock"))
            code = re.sub(r"\b((?:\w+\.)*\w+)\.wgBlock <- struct\{\}\{\}", put, code)
            if re.search(r"\.(mu|referrerMu)\.(Lock|Unlock|TryLock)\(|\.wg\.(Wait|Add|Done)\(|(?<!case )<-\s*\w+(\.\w+)*\.wgBlock|\.wgBlock\s*<-", code):
                raise Inconclusive("%s/%s has synchronisation statements the rewriter does not know" % (pkgdir, fn))
            if re.search(r"sync\.(RWMutex|Cond|Once|Map)|\.RLock\(|atomic\.", code):
                raise Inconclusive("%s/%s uses synchronisation primitives the recorder does not cover" % (pkgdir, fn))
            dst = os.path.join(d, pkgname + "_" + fn)
            with open(dst, "w") as f:
                f.write(code)
            ov["Replace"][os.path.join(src, fn)] = dst
        inj = os.path.join(d, pkgname + "_vsync_verif.go")
        with open(inj, "w") as f:
            f.write(tmpl.replace("package PKG", "package " + pkgname))
        ov["Replace"][os.path.join(src, "vsync_verif.go")] = inj
    ov["Replace"][os.path.join(vlib.REPO, "vsync_setter_verif.go")] = os.path.join(vlib.HARNESS, "inpkg", "vsync", "root_setter.go.tmpl")
    if counts["Lock"] < 20 or counts["Take"] < 4 or counts["Wait"] < 4:
        raise Inconclusive("the rewriter found too few synchronisation statements: %s" % counts)
    ovf = os.path.join(d, "overlay.json")
    with open(ovf, "w") as f:
        json.dump(ov, f)
    return ovf, counts


def lock_programs(trace_file):
    """Thread programs from a recorded synchronisation trace: per goroutine the completed operations, cut at the points
    where it holds nothing; kept are the segments that block (Lock, Take, Wait) while holding something."""
    from collections import defaultdict
    per = defaultdict(list)
    configs = []
    with open(trace_file) as f:
        for line in f:
            e = json.loads(line)
            if e["k"] == "config":
                configs.append(e)
            elif e["k"] == "sync" and e["post"]:
                per[(e["epoch"], e["g"])].append(e)
    ids = {}
    progs, seen = [], set()
    nseg = 0
    for (epoch, g), evs in sorted(per.items()):
        evs.sort(key=lambda e: e["seq"])
        seg, held, nested = [], [], False
        for e in evs:
            key = (epoch, e["id"])
            if key not in ids:
                ids[key] = epoch * 10000 + len([k for k in ids if k[0] == epoch]) + 1
            op = e["op"]
            if op in ("Lock", "Take", "Wait") and held:
                nested = True
            seg.append({"op": op, "id": ids[key], "class": e["class"]})
            if op in ("Lock", "Take", "Add"):
                held.append((ids[key], op))
            elif op in ("Unlock", "Put", "Done"):
                want = {"Unlock": "Lock", "Put": "Take", "Done": "Add"}[op]
                for i in range(len(held) - 1, -1, -1):
                    if held[i] == (ids[key], want):
                        del held[i]
                        break
            if not held:
                nseg += 1
                if nested:
                    sig = json.dumps([epoch, seg])
                    if sig not in seen:
                        seen.add(sig)
                        progs.append({"name": (evs[0].get("label") or "background").strip() or "background", "epoch": epoch, "g": g, "ops": seg})
                seg, nested = [], False
    return progs, configs, nseg


def c12(prop, tier, seed, work):
    import re
    t0 = time.time()
    quick = tier == "quick"
    ovf, counts = rewrite_vsync(work)
    vh = vlib.build_harness(work, tags="verif vsync", overlay=ovf)
    env = dict(os.environ, TMPDIR=work.sub("roots"))
    # (1) record the synchronisation operations of the workload, request by request
    tf = work.path("locks.ndjson")
    rc, out, dt = vlib.run([vh, "locks", "-mode", "record", "-o", tf, "-seed", str(seed)], timeout=1200, check=False, env=env)
    m = re.search(r"(\d+) configurations, (\d+) requests, (\d+) hung", out)
    if rc != 0 or not m:
        raise Inconclusive("lock recorder failed:\n" + out[-3000:])
    violations = []
    if int(m.group(3)) > 0:
        path = vlib.save_replay(prop, "record-hang", {"property": prop, "kind": "locks", "mode": "record", "seed": seed, "note": "a request of the sequential workload did not return"})
        violations.append((path, "a request of the sequential workload did not return"))
    progs, configs, nseg = lock_programs(tf)
    nevents = sum(1 for _ in open(tf))
    if violations:
        # the sequential workload itself hangs: nothing more to learn from the model
        rec = [c for c in configs if c.get("hung", 0) > 0]
        waits = sorted({"%s>%s" % (h["class"], s["wants"]["class"]) for c in rec for s in (c.get("stuck") or []) for h in (s["holds"] or [])})
        vlib.write_evidence(prop, tier, seed, "model_checking", {"states": 1, "transitions": 1, "traces_validated_against_impl": len(progs), "sync_events_recorded": nevents,
                            "rule": "the recorded sequential workload did not complete", "samples": [], "exhaustive": False, "failures": [v[1] for v in violations]},
                            ASSUME_COMMON[:2], time.time() - t0, len(violations))
        for path, what in violations:
            print("VIOLATION property=%s replay=%s" % (prop, path))
            log("  %s; wait-for edges %s" % (what, waits))
        return 1
    if len(progs) < 20:
        raise Inconclusive("only %d nested thread programs were extracted" % len(progs))
    pf = work.path("progs.ndjson")
    vlib.write_programs(pf, progs)
    # (2) TLC: every pair (thorough: and every triple of the shorter programs) in every interleaving
    cfg = "SPECIFICATION Spec\nCONSTANT Threads = %d\nINVARIANT Report\nCHECK_DEADLOCK FALSE\n"
    res = vlib.tlc(work, "locks2", "Locks", cfg % 2, files={pf: "progs.ndjson"}, workers=vlib.WORKERS, timeout=3000)
    vlib.tlc_ok(res, "Locks pairs")
    preds = vlib.tlc_prints(res["out"], "DEADLOCK")
    states, trans = res["distinct"], res["states"]
    notes = ["pairs of %d programs: %d distinct states, %d transitions, %.0fs, %d blocked states" % (len(progs), res["distinct"], res["states"], res["wall"], len(preds))]
    if not quick:
        short = [p for p in progs if len(p["ops"]) <= 12][:70]
        pf3 = work.path("progs3.ndjson")
        vlib.write_programs(pf3, short)
        r3 = vlib.tlc(work, "locks3", "Locks", cfg % 3, files={pf3: "progs.ndjson"}, workers=vlib.WORKERS, timeout=5000)
        vlib.tlc_ok(r3, "Locks triples")
        p3 = vlib.tlc_prints(r3["out"], "DEADLOCK")
        # a triple that contains a blocked pair is not news
        preds += [p for p in p3 if all(t["live"] for t in p["threads"])]
        states += r3["distinct"]
        trans += r3["states"]
        notes.append("triples of the %d programs of at most 12 operations: %d distinct states, %d transitions, %.0fs, %d blocked states" % (len(short), r3["distinct"], r3["states"], r3["wall"], len(p3)))
    # the predicted cycles by class: (held class > wanted class) per blocked thread
    idclass = {}
    for p in progs:
        for o in p["ops"]:
            idclass[o["id"]] = o["class"]
    cycles = {}
    for p in preds:
        edges = set()
        for t in p["threads"]:
            if t["live"]:
                for h in t["holds"]:
                    edges.add("%s>%s" % (idclass.get(h, "?"), t["wants"]["class"]))
                if not t["holds"]:
                    edges.add(">%s" % t["wants"]["class"])
        key = ",".join(sorted(edges))
        cycles.setdefault(key, []).append([t["name"][:80] for t in p["threads"]])
    for key, ex in cycles.items():
        log("predicted by TLC (%d states): %s   e.g. %s" % (len(ex), key, ex[0]))
    # (3) the real code under concurrency: plain, and with delays at the edges of every predicted cycle
    known = [k for k in vlib.load_known().get("open", []) if k.get("property") == prop]
    klines = set()
    runs = [("plain", "")] + [("cycle%d" % i, key) for i, key in enumerate(sorted(cycles)) if not key.startswith(">")]
    nreq = nstress = 0
    confirmed = []
    for name, edges in runs:
        sf = work.path("stress-%s.ndjson" % name)
        cmd = [vh, "locks", "-mode", "stress", "-o", sf, "-seed", str(seed), "-secs", str(2 if quick else 8)]
        if edges:
            cmd += ["-edges", edges]
        rc, out, dt = vlib.run(cmd, timeout=3000, check=False, env=env)
        m = re.search(r"(\d+) configurations, (\d+) requests, (\d+) hung, (\d+) delays", out)
        if not m:
            raise Inconclusive("stress run failed:\n" + out[-3000:])
        nreq += int(m.group(2))
        nstress += 1
        log("stress %s: %s requests, %s hung, %s delays (%.1fs)" % (name, m.group(2), m.group(3), m.group(4), dt))
        if int(m.group(3)) > 0:
            res_lines = [json.loads(l) for l in open(sf)]
            bad = [r for r in res_lines if r["hung"] > 0][0]
            waits = sorted({"%s>%s" % (h["class"], s["wants"]["class"]) for s in bad["stuck"] for h in (s["holds"] or [])})
            kf = [k for k in known if set(k["match"]["edges"]) <= set(waits)]
            if kf:
                klines.add("KNOWN-FINDING: property=%s %s" % (prop, kf[0]["what"]))
                continue
            path = vlib.save_replay(prop, "hang-" + name, {"property": prop, "kind": "locks", "mode": "stress", "edges": edges, "seed": seed, "cfg": bad["cfg"],
                                                          "waits": waits, "stuck": bad["stuck"], "closeHung": bad["closeHung"], "dump": bad.get("dump", "")[:60000]})
            violations.append((path, "requests hang on %s store (upload limit %s, grace %s ms): wait-for edges %s" % (bad["cfg"]["store"], bad["cfg"]["uploadMax"], bad["cfg"].get("graceMs", 0), waits)))
            confirmed.append(edges)
    unconfirmed = [key for key in cycles if key not in confirmed and not key.startswith(">")]
    # (4) a request waiting for a collection returns when its context is cancelled
    cf = work.path("cancel.ndjson")
    rc, out, dt = vlib.run([vh, "locks", "-mode", "cancel", "-o", cf], timeout=600, check=False, env=env)
    cres = [json.loads(l) for l in open(cf)] if os.path.exists(cf) else []
    if len(cres) < 3:
        raise Inconclusive("cancel / shutdown scenarios failed:\n" + out[-2000:])
    for r in cres:
        if r["k"] == "closeticker":
            if not r["ok"]:
                path = vlib.save_replay(prop, "closeticker-" + r["store"], {"property": prop, "kind": "locks", "mode": "cancel", "result": r})
                violations.append((path, "close scenario: %s" % r["note"]))
            continue
        if r["k"] == "shutdown":
            if not r["built"]:
                raise Inconclusive("shutdown scenario: %s (the scenario no longer builds the situation)" % r["note"])
            if not r["ok"]:
                path = vlib.save_replay(prop, "shutdown", {"property": prop, "kind": "locks", "mode": "cancel", "result": r})
                violations.append((path, "shutdown scenario: %s" % r["note"]))
            continue
        if not r["waited"]:
            raise Inconclusive("cancel scenario on %s: the request did not wait for the collection (the scenario no longer builds the situation)" % r["store"])
        if not r["ok"]:
            path = vlib.save_replay(prop, "cancel-" + r["store"], {"property": prop, "kind": "locks", "mode": "cancel", "result": r})
            violations.append((path, "cancel scenario on %s: %s" % (r["store"], r["note"])))
    for ln in sorted(klines):
        print(ln)
    if unconfirmed:
        log("predicted but not produced on the real code (no verdict from these): %s" % unconfirmed)
    cov = {"states": states, "transitions": trans, "traces_validated_against_impl": len(progs), "sync_events_recorded": nevents, "goroutine_segments": nseg,
           "thread_programs": len(progs), "predicted_blocked_states": len(preds), "predicted_cycles": sorted(cycles), "confirmed_on_real_code": confirmed,
           "predicted_not_produced": unconfirmed, "stress_runs": nstress, "stress_requests": nreq, "cancel_scenarios": cres, "model_checking": notes,
           "sync_statements_rewritten": counts,
           "rule": "every mutex, wait group and collection token operation of olareg, internal/store and internal/cache is rewritten (go build -overlay) to report to a hook; a workload of uploads, "
                   "abandoned / cancelled / evicted / expired sessions, manifests, mounts, collections and Close runs on dir and mem with a session limit, a short grace period and the collection "
                   "ticker; each goroutine segment that blocks while holding something becomes a thread program of spec/Locks.tla; TLC runs all pairs (thorough: triples) in every interleaving and "
                   "reports blocked states; the same scripts then run from 10 goroutines at once, plainly and with delays at the edges of every predicted cycle: a request, collection or Close that "
                   "does not return within 5 s is a hang (verdicts only from these real executions); a cancelled request waiting for a collection (queued behind a request without a deadline that waits for the same collection) must return; Close of 300 servers per store whose collection ticker runs every millisecond, at a random moment of the tick, must return; Shutdown of a listening server with rate limiting must return when the one accepted request, held right before the rate limiter, is let go",
           "samples": [{"name": p["name"][:80], "ops": ["%s %s" % (o["op"], o["class"]) for o in p["ops"][:10]]} for p in progs[:2]],
           "known_findings_reported": sorted(klines), "exhaustive": False, "failures": [v[1] for v in violations][:10]}
    vlib.write_evidence(prop, tier, seed, "model_checking", cov, ASSUME_COMMON[:2] + [
        "a predicted cycle that the stress runs do not produce yields no verdict (it is listed in the evidence)",
        "programs come from the recorded workload: code paths it does not exercise are not in the model",
        "hang = no return within 5 s under the harness watchdog while nothing else makes progress"],
        time.time() - t0, len(violations))
    if violations:
        for path, what in violations[:5]:
            print("VIOLATION property=%s replay=%s" % (prop, path))
            log("  " + what)
        return 1
    return 0


def replay_locks(prop, path, rp, work, seed):
    """Runs the stress (with the delays of the recorded run) or the cancel scenario again on the current tree."""
    import re
    ovf, counts = rewrite_vsync(work)
    vh = vlib.build_harness(work, tags="verif vsync", overlay=ovf)
    env = dict(os.environ, TMPDIR=work.sub("roots"))
    of = work.path("replay-locks.ndjson")
    if rp.get("mode") == "cancel":
        vlib.run([vh, "locks", "-mode", "cancel", "-o", of], timeout=600, check=False, env=env)
        bad = [r for r in (json.loads(l) for l in open(of)) if not r["ok"]]
    else:
        bad = []
        for attempt in range(3):
            cmd = [vh, "locks", "-mode", "stress" if rp.get("mode") != "record" else "record", "-o", of, "-seed", str(rp.get("seed", seed) + attempt), "-secs", "6"]
            if rp.get("edges"):
                cmd += ["-edges", rp["edges"]]
            rc, out, dt = vlib.run(cmd, timeout=3000, check=False, env=env)
            m = re.search(r"(\d+) requests, (\d+) hung", out)
            if not m:
                raise Inconclusive("stress run failed:\n" + out[-2000:])
            if int(m.group(2)) > 0:
                bad = [m.group(0)]
                break
    if bad:
        log("  %s" % json.dumps(bad)[:400])
        print("VIOLATION property=%s replay=%s" % (prop, path))
        return 1
    print("replay passes: nothing hangs")
    return 0


CHECKS["C12"] = c12
