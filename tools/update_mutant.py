#!/usr/bin/env python3
"""update_mutant.py <seeded id> <yes|no> <detected_by...>: records a new verdict for a kept seeded change."""
import json, os, sys
d = os.path.join("/verif/seeded", sys.argv[1], "meta.json")
m = json.load(open(d))
m["detected"] = sys.argv[2] == "yes"
m["detected_by"] = " ".join(sys.argv[3:])
json.dump(m, open(d, "w"), indent=1)
print(d)
