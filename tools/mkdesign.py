#!/usr/bin/env python3
"""Regenerates part A of DESIGN.md (everything above the '# Round-0 plan' marker) from tools/design_partA.md,
known_findings.json and seeded/*/meta.json."""
import glob, json, os, re
V = os.path.dirname(os.path.dirname(os.path.abspath(__file__)))
k = json.load(open(os.path.join(V, "known_findings.json")))
rows = ["| property | commit | what failed |", "|---|---|---|"]
for f in k["fixed"]:
    m = re.match(r"fixed: property=(\S+) (\S+) (.*)", f)
    rows.append("| %s | %s | %s |" % (m.group(1), m.group(2), m.group(3).replace("|", "/")))
fixed = "\n".join(rows)
rows = ["| id | change | detected by |", "|---|---|---|"]
n = missed = undet = 0
for d in sorted(glob.glob(os.path.join(V, "seeded", "*"))):
    m = json.load(open(os.path.join(d, "meta.json")))
    s = m["summary"].replace("\n", " ").replace("|", "/")
    if len(s) > 260:
        s = s[:257] + "..."
    n += 1
    if not m.get("detected", True):
        undet += 1
    if "missed" in m["detected_by"] or "after strengthening" in m["detected_by"]:
        missed += 1
    rows.append("| %s | %s | %s |" % (os.path.basename(d), s, m["detected_by"].replace("|", "/")))
a = open(os.path.join(V, "tools", "design_partA.md")).read()
a = a.replace("NFIXED", str(len(k["fixed"]))).replace("FIXED_TABLE", fixed).replace("SEEDED_TABLE", "\n".join(rows)).replace("NSEEDED", str(n)).replace("NMISSED", str(missed)).replace("NUNDET", str(undet))
marker = "# Round-0 plan (kept for reference; part A above is authoritative)\n"
old = open(os.path.join(V, "DESIGN.md")).read()
rest = old.split(marker, 1)[1]
open(os.path.join(V, "DESIGN.md"), "w").write(a + rest.lstrip("\n"))
print("DESIGN.md part A regenerated: %d fixed, %d seeded (%d first missed)" % (len(k["fixed"]), n, missed))
