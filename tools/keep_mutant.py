#!/usr/bin/env python3
"""keep_mutant.py <prop> <outdir> <mid> <detected: yes|no> <by...>: stores a confirmed seeded change under /verif/seeded/."""
import json, os, shutil, sys
prop, od, mid, det = sys.argv[1:5]
by = " ".join(sys.argv[5:])
meta = [x for x in json.load(open(os.path.join(od, "meta.json"))) if x["id"] == mid][0]
base = "/verif/seeded"
os.makedirs(base, exist_ok=True)
n = 1
while os.path.exists(os.path.join(base, "%s-s%d" % (prop, n))):
    n += 1
d = os.path.join(base, "%s-s%d" % (prop, n))
os.makedirs(d)
shutil.copy(os.path.join(od, mid + ".diff"), os.path.join(d, "patch.diff"))
shutil.copy(os.path.join(od, meta["demo"]), os.path.join(d, "demo_test.go"))
out = {"property": prop, "summary": meta["summary"], "needs": meta["needs"], "demo": "demo_test.go", "demo_dir": meta["demo_dir"],
       "demo_cmd": meta["demo_cmd"], "author_verified": meta.get("verified", ""),
       "confirmed": "tools/confirm_mutant.sh in a scratch worktree: builds, full existing suite passes with the change, demo fails with it and passes without it",
       "detected": det == "yes", "detected_by": by}
json.dump(out, open(os.path.join(d, "meta.json"), "w"), indent=1)
print(d)
