#!/usr/bin/env python3
"""explain.py <replay.json>: re-executes a replay and prints the events up to the failing one (debug aid)."""
import json, os, sys
sys.path.insert(0, os.path.dirname(os.path.abspath(__file__)))
import vlib
rp = json.load(open(sys.argv[1]))
work = vlib.Work("explain")
try:
    vh = vlib.build_harness(work)
    tf, ev, dt = vlib.execute(work, vh, "x", [rp["program"]], [rp["store"]], rp.get("obs", ["refs", "sess"]), rp.get("seed", 1))
    fi = rp["failure"]["i"]
    print("failure:", json.dumps(rp["failure"])[:3000])
    for line in open(tf):
        e = json.loads(line)
        if e["k"] != "op":
            print("cfg", e["cfg"]); continue
        if e["i"] > fi: break
        op = {k: v for k, v in e["op"].items() if v not in ("", 0, False, None, {"k": "", "v": ""}, {"c": "", "p": ""})}
        r = {k: v for k, v in e["resp"].items() if v not in ("", -1, False, [], None, "none", 0)}
        print(e["i"], op, "->", r)
        if e["i"] >= fi - int(os.environ.get("CTX", "0")):
            for rn, o in e["obs"].items():
                oo = {k: v for k, v in o.items() if v not in ([], 0, None) and k != "refs"}
                refs = [(x["s"], x["f"], x["list"], x["bad"], x["fa"], x["st"], x["warm"]) for x in o.get("refs", []) if x["list"] or x["st"] != 200 or x["bad"] or not x["warm"]]
                print("    obs", rn, oo, "refs:", refs)
finally:
    work.cleanup()
