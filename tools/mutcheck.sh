#!/bin/bash
# mutcheck.sh <worktree> <diff> <prop> [tier]: applies a seeded change in a scratch worktree and runs the check against it
# (VERIF_REPO), with evidence redirected so that committed evidence is never overwritten. Prints the verdict.
wt=$1; diff=$2; prop=$3; tier=${4:-quick}
cd "$wt" || exit 2
git checkout -q -- . ; git checkout -q --detach "$(git -C /repo rev-parse HEAD)" || exit 2
git checkout -q -- . && git apply "$diff" || { echo "APPLY-FAILED $diff"; exit 2; }
out=$(mktemp -d /tmp/mutcheck.XXXXXX)
( cd /verif && VERIF_REPO="$wt" VERIF_EVIDENCE_DIR="$out" timeout 3600 ./check "$prop" --tier "$tier" > "$out/log" 2>&1; echo "exit=$?" >> "$out/log" )
grep -E "VIOLATION|KNOWN|INCONCLUSIVE|DRIFT|exit=|clauses" "$out/log" | cut -c1-220 | head -8
git -C "$wt" checkout -q -- .
rm -rf "$out"
