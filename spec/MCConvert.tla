----------------------------- MODULE MCConvert -----------------------------
(* Enumerates the layouts of ConvertAbs (one state each) and prints them for the harness to write to disk. *)
EXTENDS ConvertAbs, Json
VARIABLE lay
Init == lay \in Layouts
Next == UNCHANGED lay
Spec == Init /\ [][Next]_lay
\* sanity of the abstract expectation: referrers are grouped by actual subject, only existing manifests are listed
ExpectedSane == \A S \in Subjects : Expected(lay, S) \subseteq (lay.present \cap Own(S))
\* nothing is lost and nothing is listed twice: a listed, existing referrer is presented under exactly the subject it names
NoLoss == ~lay.conv => \A a \in lay.present : Listed(lay, a) => (a \in Expected(lay, ActualSubj[a]) /\ \A S \in Subjects \ {ActualSubj[a]} : a \notin Expected(lay, S))
FbJ(f) == [tag |-> f.tag, list |-> [i \in DOMAIN f.list |-> [a |-> f.list[i].a, d |-> f.list[i].d]]]
Emit == PrintT(<<"LAYOUT", ToJson([present |-> lay.present, fb |-> [m1 |-> FbJ(lay.fb["m1"]), m2 |-> FbJ(lay.fb["m2"]), nx |-> FbJ(lay.fb["nx"])],
                                    resp |-> lay.resp, conv |-> lay.conv, s512 |-> lay.s512])>>)
=============================================================================
