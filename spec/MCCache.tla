------------------------------ MODULE MCCache ------------------------------
(* Cache as a generator: random behaviours (one successor per step) printed as JSON for the in-package driver. *)
EXTENDS Cache, Json
CONSTANT Depth
VARIABLE hist
gvars == <<vars, hist>>
Str(x) == IF x = None THEN "" ELSE ToString(x)
OpJ(o) == [op |-> o.op, key |-> Str(o.key)]
GInit == Init /\ hist = <<>>
RNext ==
  \E c \in {RandomElement(1..12)} : \E k \in {RandomElement(Keys)} :
     CASE c <= 4 -> Set(k)
       [] c = 5  -> Get(k)
       [] c = 6  -> Delete(k)
       [] c = 7  -> IF ENABLED Tick THEN Tick ELSE Get(k)
       [] c = 8  -> IF ENABLED Tick THEN Tick ELSE Set(k)
       [] c \in {9, 10} -> IF ENABLED TimerFire THEN TimerFire ELSE IF ENABLED PruneCountRun THEN PruneCountRun ELSE Set(k)
       [] c = 11 -> IF ENABLED PruneCountRun THEN PruneCountRun ELSE Get(k)
       [] OTHER  -> IF Cardinality(Present) > 2 THEN DeleteAll ELSE Set(k)
GNext == \/ /\ Len(hist) < Depth - 1 /\ RNext /\ hist' = Append(hist, OpJ(last'))
         \/ /\ Len(hist) = Depth - 1 /\ UNCHANGED vars /\ hist' = Append(hist, [op |-> "End", key |-> ""])
GSpec == GInit /\ [][GNext]_gvars
Emit == Len(hist) = Depth => PrintT(<<"PROG", ToJson([age |-> Age, count |-> Count, step |-> Step, fail |-> {ToString(k) : k \in FailKeys}, ops |-> hist])>>)
=============================================================================
