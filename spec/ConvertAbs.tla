----------------------------- MODULE ConvertAbs -----------------------------
(***************************************************************************)
(* C17: conversion of referrers kept with the fallback tag scheme.         *)
(*                                                                         *)
(* A layout (the content of one repository directory before the registry   *)
(* opens it) is described by                                               *)
(*   present  the artifact manifests whose blobs exist,                    *)
(*   fb       per subject the fallback tag <alg>-<hex>: "none" or the list *)
(*            of descriptors its index holds, each [a, d]: artifact a with *)
(*            descriptor defect d ("ok", wrong "size", "at" = artifactType,*)
(*            "noat" = artifactType left out,                              *)
(*            "annot" = annotations); a may be missing, or name another    *)
(*            subject than the tag (stale / mixed indexes),                *)
(*   resp     subjects that already have a converted (accurate) response,  *)
(*   conv     the index already carries the converted annotation,          *)
(*   s512     a fallback tag sha512-<hex> for subject m1 referenced by its *)
(*            sha512 digest, listing artifact a8.                          *)
(* Expected(L, S): the referrers the API must list for subject S after the *)
(* repository was opened: every listed, existing manifest grouped by the   *)
(* subject it actually names.                                              *)
(***************************************************************************)
EXTENDS Integers, Sequences, FiniteSets, TLC

Subjects == {"m1", "m2", "nx"}
Arts == {"a1", "a2", "a7", "a4"}
ActualSubj == [a1 |-> "m1", a2 |-> "m1", a7 |-> "m2", a4 |-> "nx"]
Defects == {"ok", "size", "at", "noat", "annot"}     \* "noat": the artifactType is missing (older clients)
Own(S) == {a \in Arts : ActualSubj[a] = S}
E(a, d) == [a |-> a, d |-> d]

\* the fallback index of subject S: absent, accurate, with one defective descriptor, with two entries, stale, mixed
FbChoices(S) ==
  IF S = "m1"
  THEN {<<>>}                                                            \* (with tag = FALSE: no fallback tag)
       \cup {<<E(a, d)>> : a \in Own(S), d \in Defects}
       \cup UNION {{<<E(a, "ok"), E(b, "ok")>> : b \in Arts \ {a}} : a \in Own(S)}  \* two own, or own + foreign (mixed subject)
       \cup {<<E(b, "ok")>> : b \in Arts \ Own(S)}                      \* only foreign (stale)
  ELSE {<<>>} \cup {<<E(a, d)>> : a \in Own(S), d \in {"ok", "size"}}
       \cup {<<E(a, "ok"), E("a1", "ok")>> : a \in Own(S)}                \* mixed: also lists a referrer of m1
       \cup {<<E("a2", "ok")>>}                                          \* stale: only a referrer of m1
Fb == [tag : BOOLEAN, list : UNION {FbChoices(S) : S \in Subjects}]

Presents == {Arts, {}} \cup {Arts \ {a} : a \in Arts}
Layouts == {L \in [present : Presents, fb : [Subjects -> Fb], resp : SUBSET {"m1"}, conv : BOOLEAN, s512 : BOOLEAN] :
              /\ \A S \in Subjects : L.fb[S].list \in FbChoices(S) /\ (~L.fb[S].tag => L.fb[S].list = <<>>)
              /\ (L.resp # {} => "a1" \in L.present)}

Listed(L, a) == \/ \E S \in Subjects : L.fb[S].tag /\ \E i \in DOMAIN L.fb[S].list : L.fb[S].list[i].a = a
                \/ (a = "a1" /\ "m1" \in L.resp)

Expected(L, S) ==
  IF L.conv THEN (IF S = "m1" /\ "m1" \in L.resp THEN {"a1"} ELSE {})      \* already converted: only what the responses hold
  ELSE {a \in L.present : ActualSubj[a] = S /\ Listed(L, a)}
Expected512(L) == IF L.s512 /\ ~L.conv THEN {"a8"} ELSE {}

\* conversion is idempotent on the abstract level: converting the converted layout changes nothing
Converted(L) == [L EXCEPT !.conv = TRUE, !.resp = {S \in {"m1"} : Expected(L, S) # {}}]
=============================================================================
