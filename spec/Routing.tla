------------------------------- MODULE Routing -------------------------------
(***************************************************************************)
(* C15: the request grammar of the registry as classes, and for every      *)
(* class the set of allowed answers (olareg.go: ServeHTTP / matchV2 and    *)
(* the handlers' error paths, types/errors.go).                            *)
(*                                                                         *)
(* A request class is a record [ep, m, repo, a, q, h, b]:                  *)
(*   ep   endpoint shape          m  method                                *)
(*   repo repository name class   a  class of the last path element        *)
(*   q    query parameter class   h  header class      b  body class       *)
(* Expected(req) gives the allowed status class and, where the property    *)
(* names the condition, the one registered error code; elsewhere any       *)
(* registered code.  The repository state the classes refer to is fixed    *)
(* (harness/routing.go): repository "full" holds image m1 tagged t1, its   *)
(* referrers a1 a2 a9 (paged), blobs b1 b2 and one open upload session;    *)
(* repository "empty" holds nothing.                                       *)
(***************************************************************************)
EXTENDS Integers, Sequences, FiniteSets, TLC

Registered == {"BLOB_UNKNOWN", "BLOB_UPLOAD_INVALID", "BLOB_UPLOAD_UNKNOWN", "DIGEST_INVALID", "MANIFEST_BLOB_UNKNOWN",
               "MANIFEST_INVALID", "MANIFEST_UNKNOWN", "NAME_INVALID", "NAME_UNKNOWN", "SIZE_INVALID", "UNAUTHORIZED",
               "DENIED", "UNSUPPORTED", "TOOMANYREQUESTS"}

Methods == {"GET", "HEAD", "PUT", "POST", "PATCH", "DELETE", "OPTIONS"}
\* repository name classes: holding content / valid but empty / valid grammar but refused by the directory store
\* (a component named like a layout file) / outside the grammar
Repos == {"full", "empty", "reserved", "upper", "dotdot", "leaddash", "dblslash", "long", "colon"}
BadRepos == {r \in Repos : r \notin {"full", "empty", "reserved", "long"}}
ValidName(r) == r \in {"full", "empty", "reserved", "long"}

DigClasses == {"present", "absent", "absent512", "short", "badalg", "upperhex", "nocolon", "longhex", "pathy"}
WellFormedDig(d) == d \in {"present", "absent", "absent512"}
RefClasses == {"tag", "notag", "longtag", "badtag"} \cup DigClasses
SessClasses == {"open", "gone", "unknown", "otherrepo", "pathy"}
NClasses == {"none", "1", "2", "0", "-1", "x", "huge", "2147483648", "9223372036854775808"}
LastClasses == {"none", "tag", "between", "odd"}
CrClasses == {"none", "ok", "stale", "future", "bad", "neg", "huge"}
StClasses == {"ok", "stale", "future", "b64", "json", "none", "neg", "huge"}
PageClasses == {"none", "0", "1", "2", "-1", "x", "huge"}
CacheClasses == {"none", "match", "other", "bad"}

R(ep, m, repo, a, q, h, b) == [ep |-> ep, m |-> m, repo |-> repo, a |-> a, q |-> q, h |-> h, b |-> b]
None == [k |-> "none"]

ReqPing      == {R("ping", m, "", p, None, None, "") : m \in Methods, p \in {"/v2/", "/v2", "/v2//", "/v2/."}}
ReqUnknown   == {R("unknown", m, "", p, None, None, "") :
                   m \in {"GET", "POST", "DELETE"},
                   p \in {"/", "", "/v1/x", "/v2/full/unknown/x", "/v2/full/manifests", "/v2/full/tags", "/v2/full/tags/list/x",
                          "/v2/full/blobs", "/v2/full/referrers", "/v2x/full/tags/list", "/v2/manifests/t1",
                          "/v2/full/../../etc/passwd", "/v2/%2e%2e/x/y/z"}}
ReqManGet    == {R("manifests", m, r, a, [k |-> "none"], [accept |-> ac, range |-> rg], "") :
                   m \in {"GET", "HEAD"}, r \in Repos, a \in RefClasses, ac \in {"all", "none", "other", "image"},
                   rg \in {"none", "ok", "unsat", "garbage"}}
\* (the full product only where the handler is reached; names outside the grammar get one combination per body class)
ReqManPut    == {R("manifests", "PUT", r, a, [k |-> "digest", v |-> dq], [ctype |-> ct, lenKnown |-> lk], b) :
                   r \in {"full", "empty", "reserved"}, a \in {"tag", "notag", "badtag", "present", "absent", "short", "pathy"},
                   dq \in {"none", "match", "absent", "short"},
                   ct \in {"match", "none", "bad", "otherkind", "param"}, lk \in BOOLEAN,
                   b \in {"good", "missingrefs", "junk", "empty", "trunc", "huge", "emptyobj", "deepjson"}}
                \cup {R("manifests", "PUT", r, "tag", [k |-> "digest", v |-> "none"], [ctype |-> "match", lenKnown |-> TRUE], b) :
                   r \in BadRepos \cup {"long"}, b \in {"good", "junk"}}
ReqManDel    == {R("manifests", "DELETE", r, a, None, None, "") : r \in Repos, a \in RefClasses}
ReqManOther  == {R("manifests", m, r, "tag", None, None, "") : m \in {"POST", "PATCH", "OPTIONS"}, r \in {"full", "upper"}}
ReqBlobGet   == {R("blobs", m, r, a, None, [range |-> rg], "") :
                   m \in {"GET", "HEAD"}, r \in Repos, a \in DigClasses \cup {"uploads"},
                   rg \in {"none", "ok", "unsat", "garbage", "multi", "huge"}}
ReqBlobDel   == {R("blobs", "DELETE", r, a, None, None, "") : r \in Repos, a \in DigClasses}
ReqBlobOther == {R("blobs", m, r, "present", None, None, "") : m \in {"PUT", "PATCH", "POST", "OPTIONS"}, r \in {"full", "upper"}}
ReqUpPost    == {R("uploads", "POST", r, "", [k |-> "post", digest |-> d, alg |-> al, mount |-> mo, from |-> fr], None, b) :
                   r \in {"full", "empty", "reserved"}, d \in {"none", "match", "mismatch", "short", "badalg", "present"},
                   al \in {"none", "sha512", "md5", "junk"}, mo \in {"none", "present", "absent", "short"},
                   fr \in {"none", "full", "empty", "upper", "dotdot", "unknownrepo"}, b \in {"", "blob"}}
                \cup {R("uploads", "POST", r, "", [k |-> "post", digest |-> d, alg |-> "none", mount |-> "none", from |-> "none"], None, "blob") :
                   r \in BadRepos \cup {"long"}, d \in {"none", "match"}}
\* (offset, token and digest classes only matter for the open session of the repository it belongs to)
ReqUpSess    == {R("session", m, "full", "open", [k |-> "sess", st |-> st, digest |-> d], [cr |-> cr], b) :
                   m \in {"PATCH", "PUT"}, st \in StClasses, d \in {"none", "match", "mismatch", "short", "badalg"},
                   cr \in CrClasses, b \in {"", "chunk"}}
                \cup {R("session", m, r, s, [k |-> "sess", st |-> "ok", digest |-> d], [cr |-> "none"], b) :
                   m \in {"PATCH", "PUT", "GET", "DELETE", "POST", "HEAD"}, r \in Repos, s \in SessClasses,
                   d \in {"none", "match"}, b \in {"", "chunk"}}
ReqReferrers == {R("referrers", m, r, a, [k |-> "ref", at |-> at, page |-> pg, cache |-> ca], None, "") :
                   m \in {"GET", "HEAD"}, r \in {"full", "empty"}, a \in {"present", "absent", "short"}, at \in {"none", "match", "nomatch"},
                   pg \in PageClasses, ca \in CacheClasses}
                \cup {R("referrers", m, r, a, [k |-> "ref", at |-> "none", page |-> "none", cache |-> "none"], None, "") :
                   m \in {"GET", "HEAD", "POST", "DELETE"}, r \in Repos, a \in DigClasses}
ReqTags      == {R("tags", m, r, "", [k |-> "tags", n |-> n, last |-> la], None, "") :
                   m \in {"GET", "HEAD", "POST", "DELETE"}, r \in Repos, n \in NClasses, la \in LastClasses}

Requests == ReqPing \cup ReqUnknown \cup ReqManGet \cup ReqManPut \cup ReqManDel \cup ReqManOther \cup ReqBlobGet
            \cup ReqBlobDel \cup ReqBlobOther \cup ReqUpPost \cup ReqUpSess \cup ReqReferrers \cup ReqTags

-----------------------------------------------------------------------------
\* allowed answers.  st: set of allowed statuses; codes: allowed error codes
\* when the response carries an error document (HEAD responses and 2xx carry none)
A(st, codes) == [st |-> st, codes |-> codes]
X4 == 400..499
Any4xx == A(X4, Registered)
Code4xx(c) == A(X4, {c})

\* store dependent: the directory store refuses names with a component called index.json, oci-layout or blobs,
\* and names with a component longer than a file name can be
ReservedRefused(store) == store \in {"dir", "dirro", "memdir"}
Unstorable(q, store) == q.repo \in {"reserved", "long"} /\ store \in {"dir", "dirro"}

Expected(q, store) ==
  LET writable == store # "dirro" IN
  CASE q.ep = "ping" -> IF q.m \in {"GET", "HEAD"} THEN A({200}, {}) ELSE Any4xx
    [] q.ep = "unknown" -> Any4xx
    \* a repository name outside the grammar is never routed (C15: "routes only repository names of the OCI grammar")
    [] q.ep # "ping" /\ q.ep # "unknown" /\ ~ValidName(q.repo) -> A({404, 405}, {})
    [] q.ep = "manifests" /\ q.m \in {"GET", "HEAD"} ->
         IF Unstorable(q, store) THEN Code4xx("NAME_INVALID")
         ELSE IF q.repo = "full" /\ q.a \in {"tag", "present"} /\ q.h.accept = "all"
              THEN (IF q.h.range = "ok" THEN A({206}, {}) ELSE IF q.h.range \in {"unsat", "garbage"} THEN A({416, 200}, Registered) ELSE A({200}, {}))
         ELSE IF q.repo = "full" /\ q.a \in {"tag", "present"} THEN A({200} \cup X4, {"MANIFEST_UNKNOWN"})   \* Accept does not list the type
         ELSE A(X4, {"MANIFEST_UNKNOWN", "NAME_UNKNOWN", "DIGEST_INVALID", "NAME_INVALID"})
    [] q.ep = "manifests" /\ q.m = "PUT" ->
         IF ~writable \/ Unstorable(q, store) THEN Any4xx
         ELSE IF q.repo \in {"full", "empty", "long"} /\ q.a \in {"tag", "notag", "present"} /\ q.q.v \in {"none", "match", "absent"}
                 /\ q.h.ctype \in {"match", "none", "param"} /\ q.b = "good" /\ (q.repo = "full" \/ q.a # "present")
              THEN A({201} \cup X4, Registered)       \* acceptance itself is judged by C04; here: an answer of the right shape
              ELSE Any4xx
    [] q.ep = "manifests" /\ q.m = "DELETE" ->
         IF ~writable THEN Any4xx
         ELSE IF q.repo = "full" /\ q.a \in {"tag", "present"} THEN A({202}, {})
         ELSE IF Unstorable(q, store) THEN Code4xx("NAME_INVALID")
         ELSE A(X4, {"MANIFEST_UNKNOWN", "NAME_UNKNOWN", "DIGEST_INVALID"})
    [] q.ep = "manifests" -> Any4xx
    [] q.ep = "blobs" /\ q.m \in {"GET", "HEAD"} ->
         IF Unstorable(q, store) THEN (IF WellFormedDig(q.a) THEN Code4xx("NAME_INVALID") ELSE A(X4, {"NAME_INVALID", "DIGEST_INVALID"}))
         ELSE IF ~WellFormedDig(q.a) THEN Code4xx("DIGEST_INVALID")
         ELSE IF q.repo = "full" /\ q.a = "present"
              THEN (IF q.h.range \in {"ok", "multi"} THEN A({206}, {}) ELSE IF q.h.range \in {"unsat", "huge", "garbage"} THEN A({416, 200}, Registered) ELSE A({200}, {}))
         ELSE Code4xx("BLOB_UNKNOWN")
    [] q.ep = "blobs" /\ q.m = "DELETE" ->
         IF ~writable THEN Any4xx
         ELSE IF Unstorable(q, store) THEN (IF WellFormedDig(q.a) THEN Code4xx("NAME_INVALID") ELSE A(X4, {"NAME_INVALID", "DIGEST_INVALID"}))
         ELSE IF ~WellFormedDig(q.a) THEN Code4xx("DIGEST_INVALID")
         ELSE IF q.repo = "full" /\ q.a = "present" THEN A({202}, {})
         ELSE A(X4 \cup {202}, {"BLOB_UNKNOWN"})       \* (a memory store over a directory acknowledges the delete of an absent blob)
    [] q.ep = "blobs" -> Any4xx
    [] q.ep = "uploads" ->
         IF ~writable THEN Any4xx
         \* (several conditions at once: the code of any of them)
         ELSE IF Unstorable(q, store)
              THEN (IF q.q.alg \in {"md5", "junk"} \/ q.q.digest \in {"short", "badalg"} \/ q.q.mount = "short"
                    THEN A(X4, {"NAME_INVALID", "DIGEST_INVALID", "UNSUPPORTED"}) ELSE Code4xx("NAME_INVALID"))
         ELSE IF q.q.alg \in {"md5", "junk"} THEN A(X4 \cup {201, 202}, {"DIGEST_INVALID", "UNSUPPORTED", "BLOB_UPLOAD_INVALID"})
         ELSE IF q.q.digest \in {"short", "badalg"} \/ (q.q.digest = "none" /\ q.q.mount = "short") THEN A(X4 \cup {201}, {"DIGEST_INVALID"})
         ELSE IF q.q.digest \in {"mismatch", "present", "match"} THEN A(X4 \cup {201}, {"BLOB_UPLOAD_INVALID", "DIGEST_INVALID"})
         \* a mount whose source is outside the repository grammar is never satisfied (a directory of that name holding the
         \* blob exists next to the repositories): the request falls back to a session
         ELSE IF q.q.mount = "present" /\ q.q.from \in {"upper", "dotdot"} /\ q.repo = "empty" THEN A({202}, {})
         ELSE A({201, 202}, {})
    [] q.ep = "session" ->
         IF q.m \in {"POST", "HEAD"} \/ q.a = "pathy" THEN Any4xx      \* (dot segments in the id are cleaned into another route)
         ELSE IF ~writable THEN Any4xx
         ELSE IF Unstorable(q, store) THEN A(X4, {"NAME_INVALID", "BLOB_UPLOAD_UNKNOWN"})
         ELSE IF ~(q.repo = "full" /\ q.a = "open") THEN Code4xx("BLOB_UPLOAD_UNKNOWN")
         ELSE IF q.m = "GET" THEN A({204}, {})
         ELSE IF q.m = "DELETE" THEN A({202}, {})
         ELSE IF q.h.cr \notin {"none", "ok"} THEN A(X4, {"SIZE_INVALID", "BLOB_UPLOAD_INVALID"})
         ELSE IF q.m = "PUT" /\ q.q.digest \in {"none", "short", "badalg"} THEN Code4xx("DIGEST_INVALID")
         ELSE IF q.q.st # "ok" THEN Code4xx("BLOB_UPLOAD_INVALID")
         ELSE IF q.m = "PATCH" THEN A({202}, {})
         ELSE IF q.q.digest = "match" THEN A({201}, {})
         ELSE A(X4, {"BLOB_UPLOAD_INVALID", "DIGEST_INVALID"})
    [] q.ep = "referrers" ->
         IF q.m \in {"GET", "HEAD"}
         THEN (IF (q.q.cache = "bad" /\ q.q.page \in {"1", "2", "huge"}) \/ q.a = "pathy" THEN A({200} \cup X4, Registered) ELSE A({200}, {}))
         ELSE Any4xx
    [] q.ep = "tags" ->
         IF q.m \in {"GET", "HEAD"}
         THEN (IF Unstorable(q, store) THEN Code4xx("NAME_INVALID") ELSE A({200}, {}))
         ELSE Any4xx
    [] OTHER -> Any4xx

\* does a logged answer fit ?
StatusFits(s, st) == s \in st
Fits(q, store, resp) ==
  LET x == Expected(q, store) IN
  /\ ~resp.panic /\ ~resp.hung
  /\ resp.status \notin 500..599
  /\ StatusFits(resp.status, x.st)
  \* a body on an error answer is an OCI error document with an allowed code (ranges answered by net/http excepted)
  /\ (resp.status >= 400 /\ q.m # "HEAD" /\ resp.hasbody /\ resp.status # 416) =>
        /\ resp.errdoc = "ok"
        /\ resp.codes # <<>> /\ \A i \in DOMAIN resp.codes : resp.codes[i] \in x.codes \cap Registered
  \* a name outside the grammar reaches no handler: nothing is created
  /\ (q.ep \notin {"ping", "unknown"} /\ ~ValidName(q.repo)) => ~resp.changed
=============================================================================
