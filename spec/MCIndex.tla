------------------------------ MODULE MCIndex ------------------------------
(***************************************************************************)
(* IndexImpl as a generator: behaviours of the implementation-shaped index *)
(* model, with the predicted list after every operation, are printed as    *)
(* JSON and replayed on the real types.Index by `vharness index`.          *)
(***************************************************************************)
EXTENDS IndexImpl, Json

CONSTANT Depth
VARIABLE hist
gvars == <<vars, hist>>

Str(x) == IF x = None THEN "" ELSE ToString(x)
EntryJ(e) == [d |-> Str(e.dig), t |-> Str(e.tag), s |-> Str(e.subj)]
ListJ(m) == [i \in 1..Len(m) |-> EntryJ(m[i])]
SeqJ(c) == [i \in 1..Len(c) |-> Str(c[i])]
OpJ(o) == [op |-> o.op,
           d |-> IF "dig" \in DOMAIN o THEN Str(o.dig) ELSE "",
           t |-> IF "tag" \in DOMAIN o THEN Str(o.tag) ELSE "",
           s |-> IF "subj" \in DOMAIN o THEN Str(o.subj) ELSE "",
           children |-> IF "children" \in DOMAIN o THEN SeqJ(o.children) ELSE <<>>]

GInit == Init /\ hist = <<>>
\* One random successor per step (RandomElement is bound through a singleton \E so that it is evaluated once):
\* TLC's simulator would otherwise compute every successor of every state (and evaluate Emit on each of them).
RNext ==
  \E k \in {RandomElement(1..10)} :
     \/ /\ k <= 5
        /\ \E a \in {RandomElement(AddArgs)} : \E cds \in {RandomElement(ChildSeqs(a[1]))} : AddDesc(a[1], a[2], a[3], cds)
     \/ /\ k = 6 /\ \E d \in {RandomElement(Digs)} : RmDesc(d, None, None)
     \/ /\ k = 7 /\ \E d \in {RandomElement(Digs)} : \E t \in {RandomElement(Tags)} : RmDesc(d, t, None)
     \/ /\ k = 8 /\ \E t \in {RandomElement(Tags)} : RmDesc(None, t, None)
     \/ /\ k = 9 /\ \E s \in {RandomElement(Subjs)} : RmDesc(None, None, s)
     \/ /\ k = 10 /\ \E a \in {RandomElement(Digs)} :
                       IF ENABLED AddChildren(<<a>>) THEN AddChildren(<<a>>) ELSE RmDesc(a, None, None)

GNext == \/ /\ Len(hist) < Depth - 1
            /\ RNext
            /\ hist' = Append(hist, [op |-> OpJ(last'), m |-> ListJ(M'), c |-> SeqJ(C')])
         \/ /\ Len(hist) = Depth - 1
            /\ UNCHANGED vars
            /\ hist' = Append(hist, [op |-> [op |-> "End", d |-> "", t |-> "", s |-> "", children |-> <<>>],
                                     m |-> ListJ(M), c |-> SeqJ(C)])
GSpec == GInit /\ [][GNext]_gvars

\* Transition coverage: with the view <<M, C, panic>> TLC visits every distinct index state of the universe once (breadth
\* first, so hist is a shortest history that reaches it) and generates every operation from it; EmitT prints the history of
\* every transition, closed by an End step: one implementation test per transition of the closure.
TNext == Next /\ hist' = Append(hist, [op |-> OpJ(last'), m |-> ListJ(M'), c |-> SeqJ(C')])
TSpec == GInit /\ [][TNext]_gvars
EndStep == [op |-> [op |-> "End", d |-> "", t |-> "", s |-> "", children |-> <<>>], m |-> ListJ(M'), c |-> SeqJ(C')]
EmitT == PrintT(<<"PROG", ToJson(Append(hist', EndStep))>>)
Emit == Len(hist) = Depth => PrintT(<<"PROG", ToJson(hist)>>)
=============================================================================
