------------------------------ MODULE MCRouting ------------------------------
(* Enumerates every request class of Routing (each class is one initial state), checks that the table of allowed   *)
(* answers is total and consistent for every store kind, and prints the classes for the harness to concretise.     *)
EXTENDS Routing, Json

VARIABLE req
Stores == {"mem", "dir", "memdir", "dirro"}
Init == req \in Requests
Next == UNCHANGED req
Spec == Init /\ [][Next]_req

\* the table is total: every class has a non-empty set of allowed statuses; only registered codes are ever allowed;
\* no class allows a 5xx; a 2xx-only class allows no error code
TableOK == \A s \in Stores : LET x == Expected(req, s) IN
              /\ x.st # {} /\ x.codes \subseteq Registered
              /\ x.st \subseteq 200..499
              /\ (\A v \in x.st : v < 400) => x.codes = {}
Emit == PrintT(<<"REQ", ToJson(req)>>)
=============================================================================
