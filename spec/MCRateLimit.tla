----------------------------- MODULE MCRateLimit -----------------------------
(* RateLimit as a generator: random (address, tick) sequences with the predicted answers, printed as JSON. *)
EXTENDS RateLimit, Json
VARIABLE done
gvars == <<vars, done>>
GInit == Init /\ done = FALSE
\* one random successor per step; requests are never placed exactly one second after a window start
\* (the implementation compares with > on wall clock time: that tick would be ambiguous when replayed in real time)
OnBoundary(a) == first[a] >= 0 /\ now - first[a] = Sec
GNext ==
  \/ /\ ~done /\ now < MaxT
     /\ \E k \in {RandomElement(1..5)} : \E a \in {RandomElement(Addrs)} :
          IF k <= 3 /\ Len(log) < MaxReq /\ ~OnBoundary(a) THEN Request(a) ELSE Tick
     /\ UNCHANGED done
  \/ /\ ~done /\ now = MaxT /\ done' = TRUE /\ UNCHANGED vars
GSpec == GInit /\ [][GNext]_gvars
\* a directed behaviour: one request, an idle period of more than two accounting seconds, then a burst above the limit
\* from the same address (the window must start over at the first request of the burst, not be carried forward)
CONSTANT Idle
A1 == CHOOSE a \in Addrs : TRUE
INext ==
  \/ /\ ~done /\ Len(log) = 0 /\ Request(A1) /\ UNCHANGED done
  \/ /\ ~done /\ Len(log) >= 1 /\ now < Idle /\ Tick /\ UNCHANGED done
  \/ /\ ~done /\ now = Idle /\ Len(log) < Limit + 4 /\ Request(A1) /\ UNCHANGED done
  \/ /\ ~done /\ now = Idle /\ Len(log) = Limit + 4 /\ done' = TRUE /\ UNCHANGED vars
ISpec == GInit /\ [][INext]_gvars
Emit == done => PrintT(<<"RL", ToJson([limit |-> Limit, sec |-> Sec, log |-> [i \in DOMAIN log |-> [a |-> ToString(log[i].a), t |-> log[i].t, served |-> log[i].served]]])>>)
=============================================================================
