------------------------------ MODULE MCConfig ------------------------------
(* Enumerates every combination of Config (one state each), checks ExactEffect on the table, prints them. *)
EXTENDS Config, Json
VARIABLE combo
Init == combo \in Combos
Next == UNCHANGED combo
Spec == Init /\ [][Next]_combo
TableExact == ExactEffect(combo)
JTri(v) == v
Emit == PrintT(<<"COMBO", ToJson([push |-> JTri(combo.push), delete |-> JTri(combo.delete), blobDelete |-> JTri(combo.blobDelete),
                                   referrers |-> JTri(combo.referrers), readOnly |-> JTri(combo.readOnly), store |-> combo.store,
                                   warnings |-> combo.warnings, rateLimit |-> combo.rateLimit])>>)
=============================================================================
