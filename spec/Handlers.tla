------------------------------ MODULE Handlers ------------------------------
(***************************************************************************)
(* C11: the request handlers of one repository at the grain of their store *)
(* calls (manifest.go, referrer.go, tag.go).  Every store call is atomic    *)
(* under the repository mutex (internal/store/dir.go, mem.go) and is one    *)
(* action here, named like the call the tap of internal/store/verif_tap.go  *)
(* reports; what a handler computes between two calls is part of the step   *)
(* of the call before it.  Concurrent requests are processes; TLC explores  *)
(* every interleaving of their store calls and checks, at quiescence, that  *)
(* the responses and the final state are those of some sequential order     *)
(* consistent with the real time order (Linearizable).                      *)
(*                                                                         *)
(* RefLock = TRUE models the code as it is (manifest put / delete hold the  *)
(* server's referrer mutex over "index entry + referrers response");        *)
(* RefLock = FALSE is the code before the fix: TLC finds the lost update.   *)
(***************************************************************************)
EXTENDS Integers, Sequences, FiniteSets, TLC

CONSTANTS RefLock, Setups, Combos,
          GCWaits      \* TRUE: the collection waits for the requests in flight (the code); FALSE: sanity variant

None == "none"
NoResp == <<"noresp">>                    \* no referrers response entry for the subject
Mans == {"m1", "m2", "a1", "a2"}
Tags == {"t1", "t2"}
Subjects == {"m1"}
SubjOf == [m1 |-> None, m2 |-> None, a1 |-> "m1", a2 |-> "m1"]
NBlobs == [m1 |-> 2, m2 |-> 3, a1 |-> 2, a2 |-> 1]    \* config + layers read by manifestVerifyImage
RefsOf == [m1 |-> <<"b1", "b2">>, m2 |-> <<"b1", "b2", "b3">>, a1 |-> <<"b1", "b2">>, a2 |-> <<"b1">>]   \* in the order they are read
Blobs == {"b1", "b2", "b3", "b4"}
NWrites == [b \in Blobs |-> 1]     \* the harness sends the body from memory: io.Copy hands it to the store in one Write

\* requests
Put(d, t) == [k |-> "Put", d |-> d, t |-> t, s |-> None]
Del(d, t) == [k |-> "Del", d |-> d, t |-> t, s |-> None]    \* by digest (t = None) or by tag (d = None)
Refs(s)   == [k |-> "Refs", d |-> None, t |-> None, s |-> s]
Get(t)    == [k |-> "Get", d |-> None, t |-> t, s |-> None]
TagsL     == [k |-> "Tags", d |-> None, t |-> None, s |-> None]
BPut(b)   == [k |-> "BlobPut", d |-> b, t |-> None, s |-> None]     \* monolithic upload POST ?digest=
BDel(b)   == [k |-> "BlobDel", d |-> b, t |-> None, s |-> None]
BGet(b)   == [k |-> "BlobGet", d |-> b, t |-> None, s |-> None]
\* a collection of the repository (internal/store: gc()), policy of the episodes that contain one: untagged manifests and
\* unreferenced blobs go at once (no grace period), referrers stay (ReferrersDangling and ReferrersWithSubj off)
GCReq     == [k |-> "GC", d |-> None, t |-> None, s |-> None]

\* the abstract index: tag -> digest, digests with an entry, subject -> list held by its referrers response
Ix(tags, mans, resp) == [tags |-> tags, mans |-> mans, resp |-> resp]
SetOf(q) == {q[i] : i \in DOMAIN q}
With(f, k, v) == [x \in DOMAIN f \cup {k} |-> IF x = k THEN v ELSE f[x]]
Without(f, K) == [k \in DOMAIN f \ K |-> f[k]]
\* types.Index.AddDesc / RmDesc on a referrers response (a list of descriptors without tag or subject annotation)
ListAdd(q, d) == IF d \in SetOf(q) THEN q ELSE Append(q, d)
ListRm(q, d) == IF d \notin SetOf(q) THEN q
                ELSE LET i == CHOOSE j \in DOMAIN q : q[j] = d
                         n == Len(q)
                     IN IF i = n THEN SubSeq(q, 1, n - 1) ELSE [j \in 1..(n - 1) |-> IF j = i THEN q[n] ELSE q[j]]

\* the states the episodes start from (what the sequential setup of the harness builds)
SetupState(s) ==
  CASE s = "s0" -> [ix |-> Ix([t1 |-> "m1"], {"m1"}, [m1 |-> NoResp]), mblobs |-> {"m1"}, rblobs |-> {}]
    [] s = "s1" -> [ix |-> Ix([t1 |-> "m1"], {"m1", "a1"}, [m1 |-> <<"a1">>]), mblobs |-> {"m1", "a1"}, rblobs |-> {<<"a1">>}]
    [] s = "s2" -> [ix |-> Ix([t1 |-> "m1"], {"m1", "a1", "a2"}, [m1 |-> <<"a1", "a2">>]), mblobs |-> {"m1", "a1", "a2"},
                    rblobs |-> {<<"a1">>, <<"a1", "a2">>}]
    [] s = "s3" -> [ix |-> Ix([t1 |-> "m1", t2 |-> "m2"], {"m1", "m2", "a1"}, [m1 |-> <<"a1">>]), mblobs |-> {"m1", "m2", "a1"},
                    rblobs |-> {<<"a1">>}]

VARIABLES setup, reqs,      \* the episode
          ix, mblobs, rblobs, cache, lock,
          bblobs,           \* plain blobs present
          token,            \* the collection token of the repository (wgBlock): TRUE = available
          holders,          \* requests between RepoGet and Done (the repository's wait group)
          procs,            \* per request: pc, locals, result, invocation / return time
          clock,
          sched             \* history: the store calls in the order they were executed, <<process, call>>
vars == <<setup, reqs, ix, mblobs, rblobs, cache, lock, bblobs, token, holders, procs, clock, sched>>
View == <<setup, reqs, ix, mblobs, rblobs, cache, lock, bblobs, token, holders, [i \in DOMAIN procs |-> [procs[i] EXCEPT !.inv = 0, !.ret = 0]],
          \* the order of invocations and returns is all the real time order needs
          {<<i, j>> \in (DOMAIN procs) \X (DOMAIN procs) : procs[i].ret # 0 /\ procs[j].inv # 0 /\ procs[i].ret < procs[j].inv},
          {i \in DOMAIN procs : procs[i].inv # 0}>>

P0 == [pc |-> "RepoGet", n |-> 0, snap |-> Ix(<<>>, {}, <<>>), old |-> <<>>, new |-> <<>>, dd |-> None, st |-> 0, res |-> {}, inv |-> 0, ret |-> 0]

Init == /\ setup \in Setups /\ reqs \in Combos
        /\ LET s == SetupState(setup) IN ix = s.ix /\ mblobs = s.mblobs /\ rblobs = s.rblobs
        /\ cache = {} /\ lock = 0 /\ clock = 0 /\ sched = <<>> /\ bblobs = {"b1", "b2", "b3"} /\ token = TRUE /\ holders = 0
        /\ procs = [i \in DOMAIN reqs |-> P0]

\* one store call of process i: new locals p, the call's name, and the changes to the shared state
AcqPc == {"Acq:IndexInsert", "Acq:MBlobGet"}
Unacq(pc) == IF pc = "Acq:IndexInsert" THEN "IndexInsert" ELSE "MBlobGet"
\* w # 0: this call releases the mutex and process w, which was waiting for it, gets it
\* RepoGet takes the token, raises the wait group and puts the token back (one store call): it waits while a collection
\* holds the token; Done lowers the wait group
CallW(i, name, p, w) ==
  /\ (name = "RepoGet" => token)
  /\ holders' = IF name = "RepoGet" THEN holders + 1 ELSE IF name = "Done" THEN holders - 1 ELSE holders
  /\ UNCHANGED token
  /\ clock' = clock + 1
  /\ LET q == [procs EXCEPT ![i] = [p EXCEPT !.inv = IF procs[i].inv = 0 THEN clock + 1 ELSE procs[i].inv,
                                               !.ret = IF p.pc = "End" THEN clock + 1 ELSE 0]]
     IN procs' = IF w = 0 THEN q ELSE [q EXCEPT ![w].pc = Unacq(q[w].pc)]
  /\ sched' = Append(sched, <<i, name>>)
  /\ UNCHANGED <<setup, reqs>>
Call(i, name, p) == CallW(i, name, p, 0)
Same == UNCHANGED <<ix, mblobs, rblobs, cache, lock, bblobs>>
NeedLock(r) == RefLock /\ ((r.k = "Put" /\ SubjOf[r.d] # None) \/ (r.k = "Del" /\ r.d # None))
\* pc after the step that precedes a critical section: the mutex is taken between two store calls (no call of its own)
\* the mutex is taken between two store calls (no call of its own): by the step of the call before the critical section when
\* it is free, else the request waits (pc "Acq:...") and gets it from the step that releases it
Enter(i, r, pc) == IF NeedLock(r) /\ lock # 0 THEN "Acq:" \o pc ELSE pc
TryLock(i, r) == IF NeedLock(r) /\ lock = 0 THEN i ELSE lock
Waiting == {j \in DOMAIN procs : procs[j].pc \in AcqPc}
Wake(i) == IF lock # i THEN {0} ELSE IF Waiting = {} THEN {0} ELSE Waiting
NextLock(i, w) == IF lock # i THEN lock ELSE w

\* the read-modify-write of a referrers response: shared by put (ListAdd) and delete (ListRm); `after` is the pc that follows
RefSteps(i, r, p, after) ==
  LET s == SubjOf[r.d] IN
  \/ /\ p.pc = "RIndexGet"
     /\ LET cur == ix.resp[s] IN
        IF cur = NoResp
        THEN IF r.k = "Del" THEN Call(i, "IndexGet", [p EXCEPT !.pc = after]) /\ Same        \* nothing to remove from
             ELSE Call(i, "IndexGet", [p EXCEPT !.pc = "RBlobCreate", !.old = <<>>, !.new = ListAdd(<<>>, r.d)]) /\ Same
        ELSE Call(i, "IndexGet", [p EXCEPT !.pc = "RBlobGet", !.old = cur]) /\ Same
  \/ /\ p.pc = "RBlobGet"
     /\ LET old == IF p.old \in rblobs THEN p.old ELSE <<>>
            new == IF r.k = "Put" THEN ListAdd(old, r.d) ELSE ListRm(old, r.d)
        IN Call(i, "BlobGet", [p EXCEPT !.pc = "RBlobCreate", !.old = old, !.new = new]) /\ Same
  \/ /\ p.pc = "RBlobCreate"
     /\ Call(i, "BlobCreate", [p EXCEPT !.pc = IF p.new \in rblobs THEN "RIndexInsert" ELSE "RWrite"]) /\ Same
  \/ /\ p.pc = "RWrite" /\ Call(i, "Write", [p EXCEPT !.pc = "RClose"]) /\ Same
  \/ /\ p.pc = "RClose" /\ Call(i, "Close", [p EXCEPT !.pc = "RIndexInsert"])
     /\ rblobs' = rblobs \cup {p.new} /\ UNCHANGED <<ix, mblobs, cache, lock, bblobs>>
  \/ /\ p.pc = "RIndexInsert"
     /\ ix' = [ix EXCEPT !.resp[s] = p.new]
     /\ IF after = "Done"                                         \* put: the mutex is released when the handler returns
        THEN \E w \in Wake(i) : CallW(i, "IndexInsert", [p EXCEPT !.pc = after], w) /\ lock' = NextLock(i, w)
        ELSE Call(i, "IndexInsert", [p EXCEPT !.pc = after]) /\ UNCHANGED lock
     /\ UNCHANGED <<mblobs, rblobs, cache, bblobs>>

PutSteps(i, r, p) ==
  \/ /\ p.pc = "RepoGet" /\ Call(i, "RepoGet", [p EXCEPT !.pc = "Verify", !.n = NBlobs[r.d], !.dd = "ok"]) /\ Same
  \* every reference is read; the push is refused (400) after the last one if any was missing
  \/ /\ p.pc = "Verify"
     /\ LET b == RefsOf[r.d][NBlobs[r.d] - p.n + 1]
            miss == IF b \in bblobs THEN p.dd ELSE "missing"
        IN Call(i, "BlobGet", [p EXCEPT !.pc = IF p.n > 1 THEN "Verify" ELSE IF miss = "ok" THEN "BlobCreate" ELSE "Done",
                                        !.n = p.n - 1, !.dd = miss, !.st = IF p.n = 1 /\ miss # "ok" THEN 400 ELSE 0]) /\ Same
  \/ /\ p.pc = "BlobCreate"
     /\ IF r.d \in mblobs
        THEN Call(i, "BlobCreate", [p EXCEPT !.pc = Enter(i, r, "IndexInsert")]) /\ lock' = TryLock(i, r) /\ UNCHANGED <<ix, mblobs, rblobs, cache, bblobs>>
        ELSE Call(i, "BlobCreate", [p EXCEPT !.pc = "Write"]) /\ Same
  \/ /\ p.pc = "Write" /\ Call(i, "Write", [p EXCEPT !.pc = "Close"]) /\ Same
  \/ /\ p.pc = "Close" /\ Call(i, "Close", [p EXCEPT !.pc = Enter(i, r, "IndexInsert")])
     /\ mblobs' = mblobs \cup {r.d} /\ lock' = TryLock(i, r) /\ UNCHANGED <<ix, rblobs, cache, bblobs>>
  \/ /\ p.pc = "IndexInsert"
     /\ Call(i, "IndexInsert", [p EXCEPT !.pc = IF SubjOf[r.d] = None THEN "Done" ELSE "RIndexGet", !.st = 201])
     /\ ix' = [ix EXCEPT !.mans = @ \cup {r.d}, !.tags = IF r.t = None THEN @ ELSE With(@, r.t, r.d)]
     /\ UNCHANGED <<mblobs, rblobs, cache, lock, bblobs>>
  \/ (SubjOf[r.d] # None /\ RefSteps(i, r, p, "Done"))

DelSteps(i, r, p) ==
  \/ /\ p.pc = "RepoGet" /\ Call(i, "RepoGet", [p EXCEPT !.pc = "IndexGet"]) /\ Same
  \/ /\ p.pc = "IndexGet"
     /\ IF r.d # None
        THEN IF r.d \in ix.mans THEN /\ Call(i, "IndexGet", [p EXCEPT !.pc = Enter(i, r, "MBlobGet"), !.dd = r.d, !.st = 202])
                                      /\ lock' = TryLock(i, r) /\ UNCHANGED <<ix, mblobs, rblobs, cache, bblobs>>
             ELSE Call(i, "IndexGet", [p EXCEPT !.pc = "Done", !.st = 404]) /\ Same
        ELSE IF r.t \in DOMAIN ix.tags THEN Call(i, "IndexGet", [p EXCEPT !.pc = "IndexRemove", !.dd = ix.tags[r.t], !.st = 202]) /\ Same
             ELSE Call(i, "IndexGet", [p EXCEPT !.pc = "Done", !.st = 404]) /\ Same
  \/ /\ p.pc = "MBlobGet"       \* the manifest is read to learn its subject
     /\ Call(i, "BlobGet", [p EXCEPT !.pc = IF r.d \in mblobs /\ SubjOf[r.d] # None THEN "RIndexGet" ELSE "IndexRemove"]) /\ Same
  \/ (r.d # None /\ SubjOf[r.d] # None /\ RefSteps(i, r, p, "IndexRemove"))
  \/ /\ p.pc = "IndexRemove" /\ (\E w \in Wake(i) : CallW(i, "IndexRemove", [p EXCEPT !.pc = "Done"], w) /\ lock' = NextLock(i, w))
     /\ ix' = IF r.d # None
              THEN [ix EXCEPT !.mans = @ \ {r.d}, !.tags = Without(@, {t \in DOMAIN @ : @[t] = r.d})]
              ELSE [ix EXCEPT !.tags = IF r.t \in DOMAIN @ /\ @[r.t] = p.dd THEN Without(@, {r.t}) ELSE @]
     /\ UNCHANGED <<mblobs, rblobs, cache, bblobs>>

ReadSteps(i, r, p) ==
  \/ /\ p.pc = "RepoGet" /\ Call(i, "RepoGet", [p EXCEPT !.pc = "IndexGet"]) /\ Same
  \/ /\ p.pc = "IndexGet" /\ r.k = "Tags" /\ Call(i, "IndexGet", [p EXCEPT !.pc = "Done", !.st = 200, !.res = DOMAIN ix.tags]) /\ Same
  \/ /\ p.pc = "IndexGet" /\ r.k = "Get"
     /\ IF r.t \in DOMAIN ix.tags THEN Call(i, "IndexGet", [p EXCEPT !.pc = "BlobGet", !.dd = ix.tags[r.t]]) /\ Same
        ELSE Call(i, "IndexGet", [p EXCEPT !.pc = "Done", !.st = 404]) /\ Same
  \/ /\ p.pc = "BlobGet" /\ r.k = "Get" /\ Call(i, "BlobGet", [p EXCEPT !.pc = "Done", !.st = 200, !.res = {p.dd}]) /\ Same
  \/ /\ p.pc = "IndexGet" /\ r.k = "Refs"
     /\ LET cur == ix.resp[r.s] IN
        IF cur = NoResp THEN Call(i, "IndexGet", [p EXCEPT !.pc = "Done", !.st = 200, !.res = {}]) /\ Same
        ELSE IF cur \in cache THEN Call(i, "IndexGet", [p EXCEPT !.pc = "Done", !.st = 200, !.res = SetOf(cur)]) /\ Same
        ELSE Call(i, "IndexGet", [p EXCEPT !.pc = "BlobGet", !.old = cur]) /\ Same
  \/ /\ p.pc = "BlobGet" /\ r.k = "Refs" /\ Call(i, "BlobGet", [p EXCEPT !.pc = "Done", !.st = 200, !.res = SetOf(p.old)])
     /\ cache' = cache \cup {p.old} /\ UNCHANGED <<ix, mblobs, rblobs, lock, bblobs>>

\* blob.go: blobUploadPost (monolithic), blobDelete, blobGet.  The upload releases the repository right after BlobCreate.
BlobSteps(i, r, p) ==
  \/ /\ p.pc = "RepoGet" /\ Call(i, "RepoGet", [p EXCEPT !.pc = IF r.k = "BlobPut" THEN "BlobCreate" ELSE r.k]) /\ Same
  \/ /\ p.pc = "BlobCreate" /\ r.k = "BlobPut"
     /\ Call(i, "BlobCreate", [p EXCEPT !.pc = "DoneEarly", !.dd = IF r.d \in bblobs THEN "exists" ELSE "new", !.st = 201]) /\ Same
  \/ /\ p.pc = "DoneEarly" /\ Call(i, "Done", [p EXCEPT !.pc = IF p.dd = "exists" THEN "End" ELSE "Write", !.n = NWrites[r.d]]) /\ Same
  \/ /\ p.pc = "Write" /\ r.k = "BlobPut" /\ Call(i, "Write", [p EXCEPT !.pc = IF p.n = 1 THEN "Verify" ELSE "Write", !.n = p.n - 1]) /\ Same
  \/ /\ p.pc = "Verify" /\ r.k = "BlobPut" /\ Call(i, "Verify", [p EXCEPT !.pc = "Close"]) /\ Same
  \/ /\ p.pc = "Close" /\ r.k = "BlobPut" /\ Call(i, "Close", [p EXCEPT !.pc = "End"])
     /\ bblobs' = bblobs \cup {r.d} /\ UNCHANGED <<ix, mblobs, rblobs, cache, lock>>
  \/ /\ p.pc = "BlobDel" /\ Call(i, "BlobDelete", [p EXCEPT !.pc = "Done", !.st = IF r.d \in bblobs THEN 202 ELSE 404])
     /\ bblobs' = bblobs \ {r.d} /\ UNCHANGED <<ix, mblobs, rblobs, cache, lock>>
  \/ /\ p.pc = "BlobGet" /\ r.k = "BlobGet" /\ Call(i, "BlobGet", [p EXCEPT !.pc = "Done", !.st = IF r.d \in bblobs THEN 200 ELSE 404]) /\ Same

\* the collection: take the token (new requests wait from now on), wait for the requests in flight, collect, put the token back
KeepM(x, tg) == {d \in x : d \in {tg[t] : t \in DOMAIN tg} \/ SubjOf[d] # None}
GCSteps(i, r, p) ==
  \/ /\ p.pc = "RepoGet" /\ token
     /\ token' = FALSE
     /\ procs' = [procs EXCEPT ![i] = [p EXCEPT !.pc = "GCRun", !.inv = clock + 1]]
     /\ clock' = clock + 1 /\ sched' = Append(sched, <<i, "gc:take">>)
     /\ UNCHANGED <<setup, reqs, ix, mblobs, rblobs, cache, lock, bblobs, holders>>
  \/ /\ p.pc = "GCRun" /\ (GCWaits => holders = 0)
     /\ LET keep == KeepM(ix.mans, ix.tags) IN
        /\ ix' = [ix EXCEPT !.mans = keep]
        /\ mblobs' = mblobs \cap keep
        /\ bblobs' = bblobs \cap UNION {SetOf(RefsOf[d]) : d \in keep}
        /\ rblobs' = rblobs \cap {ix.resp[s] : s \in Subjects}
     /\ token' = TRUE
     /\ procs' = [procs EXCEPT ![i] = [p EXCEPT !.pc = "End", !.st = 200, !.ret = clock + 1]]
     /\ clock' = clock + 1 /\ sched' = Append(sched, <<i, "gc:run">>)
     /\ UNCHANGED <<setup, reqs, cache, lock, holders>>

Step(i) ==
  LET r == reqs[i]
      p == procs[i]
  IN \/ (r.k = "GC" /\ GCSteps(i, r, p))
     \/ (r.k \in {"BlobPut", "BlobDel", "BlobGet"} /\ BlobSteps(i, r, p))
     \/ (r.k = "Put" /\ PutSteps(i, r, p))
     \/ (r.k = "Del" /\ DelSteps(i, r, p))
     \/ (r.k \in {"Refs", "Get", "Tags"} /\ ReadSteps(i, r, p))
     \/ (p.pc = "Done" /\ Call(i, "Done", [p EXCEPT !.pc = "End"]) /\ Same)

Quiet == \A i \in DOMAIN procs : procs[i].pc = "End"
Next == \E i \in DOMAIN procs : Step(i)
Spec == Init /\ [][Next]_vars

-----------------------------------------------------------------------------
\* the sequential meaning of the requests (what Registry.tla says about them, on this abstraction)
SeqApply(st, r) ==
  CASE r.k = "Put" ->
         IF ~(SetOf(RefsOf[r.d]) \subseteq st.blobs) THEN [ix |-> st, st |-> 400, res |-> {}]
         ELSE
         [ix |-> [st EXCEPT !.tags = IF r.t = None THEN st.tags ELSE With(st.tags, r.t, r.d), !.mans = st.mans \cup {r.d},
                  !.refs = IF SubjOf[r.d] = None THEN st.refs ELSE [st.refs EXCEPT ![SubjOf[r.d]] = @ \cup {r.d}]],
          st |-> 201, res |-> {}]
    [] r.k = "GC" -> LET keep == KeepM(st.mans, st.tags) IN
                     [ix |-> [st EXCEPT !.mans = keep, !.blobs = @ \cap UNION {SetOf(RefsOf[d]) : d \in keep}], st |-> 200, res |-> {}]
    [] r.k = "BlobPut" -> [ix |-> [st EXCEPT !.blobs = @ \cup {r.d}], st |-> 201, res |-> {}]
    [] r.k = "BlobDel" -> IF r.d \in st.blobs THEN [ix |-> [st EXCEPT !.blobs = @ \ {r.d}], st |-> 202, res |-> {}]
                          ELSE [ix |-> st, st |-> 404, res |-> {}]
    [] r.k = "BlobGet" -> [ix |-> st, st |-> IF r.d \in st.blobs THEN 200 ELSE 404, res |-> {}]
    [] r.k = "Del" /\ r.d # None ->
         IF r.d \notin st.mans THEN [ix |-> st, st |-> 404, res |-> {}]
         ELSE [ix |-> [st EXCEPT !.tags = Without(st.tags, {t \in DOMAIN st.tags : st.tags[t] = r.d}), !.mans = st.mans \ {r.d},
                       !.refs = IF SubjOf[r.d] = None THEN st.refs ELSE [st.refs EXCEPT ![SubjOf[r.d]] = @ \ {r.d}]],
               st |-> 202, res |-> {}]
    [] r.k = "Del" /\ r.d = None ->
         IF r.t \notin DOMAIN st.tags THEN [ix |-> st, st |-> 404, res |-> {}]
         ELSE [ix |-> [st EXCEPT !.tags = Without(@, {r.t})], st |-> 202, res |-> {}]
    [] r.k = "Refs" -> [ix |-> st, st |-> 200, res |-> st.refs[r.s]]
    [] r.k = "Get"  -> IF r.t \in DOMAIN st.tags THEN [ix |-> st, st |-> 200, res |-> {st.tags[r.t]}] ELSE [ix |-> st, st |-> 404, res |-> {}]
    [] r.k = "Tags" -> [ix |-> st, st |-> 200, res |-> DOMAIN st.tags]

AbsOf2(x, bl) == [tags |-> x.tags, mans |-> x.mans, refs |-> [s \in Subjects |-> IF x.resp[s] = NoResp THEN {} ELSE SetOf(x.resp[s])],
                  blobs |-> bl]
AbsOf(x) == AbsOf2(x, bblobs)
RECURSIVE SeqRun(_, _, _)
\* runs the requests in the order given; TRUE iff every response is the observed one and the final state is `final`
SeqRun(st, order, final) ==
  IF order = <<>> THEN st = final
  ELSE LET i == Head(order)
           o == SeqApply(st, reqs[i])
       IN /\ \/ o.st = procs[i].st
             \* reading: a delete that was acknowledged although a concurrent delete had just removed its target is not
             \* held against the registry (both clients asked for the same final state and got it)
             \/ (reqs[i].k \in {"Del", "BlobDel"} /\ procs[i].st = 202 /\ o.st = 404)
          /\ (procs[i].st = 200 => o.res = procs[i].res) /\ SeqRun(o.ix, Tail(order), final)
Orders == {q \in [1..Len(reqs) -> DOMAIN reqs] :
             /\ \A a, b \in DOMAIN q : a # b => q[a] # q[b]
             \* real time order: a request that returned before another was invoked comes first
             /\ \A a, b \in DOMAIN q : (procs[q[b]].ret < procs[q[a]].inv) => b < a}
Linearizable == Quiet => \E q \in Orders : SeqRun(AbsOf2(SetupState(setup).ix, {"b1", "b2", "b3"}), q, AbsOf(ix))
\* the mutex is only held inside a critical section and every request ends (no deadlock between lock and calls)
LockFree == Quiet => lock = 0
NoStuck == ~Quiet => ENABLED Next
=============================================================================
