----------------------------- MODULE MCRegistry -----------------------------
(***************************************************************************)
(* Registry as (a) an exhaustively checked model and (b) a generator of    *)
(* request programs.  The catalogue is read from cat.json (written by the  *)
(* harness: `vharness catalogue`), so model and implementation talk about  *)
(* the same universe.  In generator mode (tlc -simulate) the history of    *)
(* operation records is printed as JSON when it reaches Depth; the harness *)
(* replays it against the real server and TraceRegistry judges the result. *)
(*                                                                         *)
(* GenOps(profile) is the operation alphabet.  The guards G1..G3 keep the  *)
(* generator away from request patterns whose outcome the properties do    *)
(* not pin down (DESIGN.md section 5); guards named after a known finding  *)
(* are only active while that finding is open (constant KnownOpen).        *)
(***************************************************************************)
EXTENDS Registry, Json

CONSTANTS Profile,     \* string: which operation families are generated
          Depth,       \* length of generated programs
          KnownOpen    \* set of names of open findings (guards)

VARIABLE hist
mvars == <<vars, hist>>

CatFile == JsonDeserialize("cat.json")

GR == Repos
BlobCids == {c \in DOMAIN Cat.blobs : c # "nx"}
ManCids  == DOMAIN Cat.mans
DigsOfC(c) == {d \in Digs : CidOf(d) = c}
TagRef(t) == [k |-> "tag", v |-> t]
DigRef(d) == [k |-> "dig", v |-> d]

-----------------------------------------------------------------------------
\* guards
\* G1: an index is only pushed when each child was pushed as a manifest before (the properties do not say whether a
\*     child that exists only as a plain blob counts as "existing")
G1(r, c) == M(c).kind = "index" => \A x \in Range(M(c).children) : x \in DOMAIN man[r] \/ x \notin blob[r]
\* G2 (finding child-orphan): deleting an index by digest while one of its children is reachable only through it
Orphans(r, d) == {x \in Range(M(CidOf(d)).children) :
                    /\ x \in DOMAIN man[r]
                    /\ ~\E t \in DOMAIN tag[r] : tag[r][t] = x
                    /\ ~\E y \in DOMAIN man[r] \ {d} : x \in Range(M(CidOf(y)).children)}
G2(r, d) == "child-orphan" \in KnownOpen => Orphans(r, d) = {}
\* G3: blobs of indexed manifests are not deleted through the blob API (index entry without content: outcome not pinned)
G3(r, d) == d \notin DOMAIN man[r]

-----------------------------------------------------------------------------
\* macro: a complete blob upload in one program step (expanded by the harness into POST/PATCH/PUT)
PushBlobOp(r, d, w) == [op |-> "PushBlob", repo |-> r, dig |-> d, chunk |-> [c |-> CidOf(d), p |-> "all"], which |-> w, alg |-> ""]
PushBlobEffect(op) ==
  /\ blob' = [blob EXCEPT ![op.repo] = @ \cup {op.dig}]
  /\ young' = [young EXCEPT ![op.repo] = @ \cup ({op.dig} \ blob[op.repo])]
  /\ IF op.which = "mono" THEN UNCHANGED <<sess, nsess>>
     ELSE /\ nsess' = nsess + 1
          /\ sess' = Upd(sess, Handle(nsess + 1), [NoSess EXCEPT !.repo = op.repo])
  /\ resp' = Ok(201)
  /\ UNCHANGED <<env, man, tag>>

ManPutOp(r, ref, c, ct, lk, dp) ==
  [op |-> "ManPut", repo |-> r, ref |-> ref, ctype |-> ct, ctvar |-> "", body |-> c, lenKnown |-> lk, dparam |-> dp]

\* operation families ---------------------------------------------------------
OpsPushBlob == {PushBlobOp(r, d, w) : r \in GR, d \in {x \in Digs : IsBlobC(CidOf(x)) /\ CidOf(x) # "nx"},
                                      w \in {"mono", "postput", "chunked", "stream"}}

\* blobs needed by some manifest not yet pushable: pushed with priority so that manifests become acceptable
OpsManPutGood ==
  UNION { {ManPutOp(r, ref, c, ct, TRUE, "") :
             r \in GR, ct \in {"", M(c).mt},
             ref \in {TagRef(t) : t \in Tags} \cup {DigRef(d) : d \in DigsOfC(c)}} : c \in ManCids }

OpsManGet == {[op |-> "ManGet", repo |-> r, ref |-> ref, accept |-> a, method |-> m, range |-> ""] :
                 r \in GR, ref \in {TagRef(t) : t \in Tags} \cup {DigRef(d) : d \in {x \in Digs : IsMan(x)}},
                 a \in {"all"}, m \in {"GET", "HEAD"}}

OpsManDel == {[op |-> "ManDel", repo |-> r, ref |-> ref] :
                 r \in GR, ref \in {TagRef(t) : t \in Tags} \cup {DigRef(d) : d \in {x \in Digs : IsMan(x)}}}

OpsBlobGet == {[op |-> "BlobGet", repo |-> r, dig |-> d, method |-> m, range |-> rg] :
                 r \in GR, d \in Digs, m \in {"GET"}, rg \in {"", "pre", "mid", "suf", "open", "unsat"}}

OpsBlobDel == {[op |-> "BlobDel", repo |-> r, dig |-> d] : r \in GR, d \in Digs}

OpsRestart == {[op |-> "Restart"]}

\* which candidate operations are worth generating in the current state
Useful(op) ==
  CASE op.op = "PushBlob" -> op.dig \notin blob[op.repo] \/ op.which = "mono"
    [] op.op = "ManPut"   -> /\ G1(op.repo, op.body)
                             /\ Refs(op.body) \subseteq blob[op.repo]
    [] op.op = "ManDel"   -> /\ Resolve(op.repo, op.ref) # ""
                             /\ (op.ref.k = "dig" => G2(op.repo, op.ref.v))
    [] op.op = "ManGet"   -> Resolve(op.repo, op.ref) # ""
    [] op.op = "BlobGet"  -> op.dig \in blob[op.repo] \/ op.range = ""
    [] op.op = "BlobDel"  -> op.dig \in blob[op.repo] /\ G3(op.repo, op.dig)
    [] OTHER -> TRUE

\* families and their weights (a family is drawn with probability proportional to its number of occurrences)
FamOps(f) ==
  CASE f = "pushblob" -> OpsPushBlob
    [] f = "manput"   -> OpsManPutGood
    [] f = "mandel"   -> OpsManDel
    [] f = "blobget"  -> OpsBlobGet
    [] f = "manget"   -> OpsManGet
    [] f = "blobdel"  -> OpsBlobDel
    [] f = "restart"  -> OpsRestart
    [] OTHER -> {}

Weights ==
  CASE Profile = "push" -> <<"pushblob", "pushblob", "pushblob", "manput", "manput", "manput", "manput", "mandel",
                             "blobget", "manget", "blobdel", "restart">>
    [] OTHER -> <<"pushblob", "manput", "mandel">>

Cands(f) == {o \in FamOps(f) : Useful(o)}

GenDo(op) == IF op.op = "PushBlob" THEN PushBlobEffect(op) ELSE Do(op)

MCInit ==
  /\ env = [cat |-> CatFile, cfg |-> CatFile.cfg, store |-> CatFile.cfg.store, trace |-> "mc"]
  /\ InitState
  /\ hist = <<>>

\* one random successor per step: first a family (weighted), then an operation of that family (uniform).
\* RandomElement makes the walk a function of the simulation seed.
MCNext ==
  /\ Len(hist) < Depth
  /\ LET ok == {i \in DOMAIN Weights : Cands(Weights[i]) # {}} IN
     /\ ok # {}
     /\ \E i \in {RandomElement(ok)} :            \* bound once (a LET definition would be re-evaluated at every use)
          \E op \in {RandomElement(Cands(Weights[i]))} :
             GenDo(op) /\ hist' = Append(hist, op)

MCSpec == MCInit /\ [][MCNext]_mvars

\* exhaustive mode: every useful operation of every family, up to Depth operations
Families == {Weights[i] : i \in DOMAIN Weights}
MCNextAll ==
  /\ Len(hist) < Depth
  /\ \E f \in Families : \E op \in Cands(f) : GenDo(op) /\ hist' = Append(hist, op)
MCSpecAll == MCInit /\ [][MCNextAll]_mvars

LastOp == hist'[Len(hist')]

\* model-level theorems (the specification is consistent with the properties it is the oracle for)
\* C01/C04/C08: a refused request changes nothing that can be read
RefusedChangesNothing ==
  [][resp'.class = "refused" => /\ UNCHANGED <<blob, man, tag, young, nsess>>
                                /\ \A h \in DOMAIN sess : sess'[h].parts = sess[h].parts /\ sess'[h].off = sess[h].off]_mvars
\* C02: content disappears only through an explicit delete, a collection, or the restart of a memory store
Persistence ==
  [][/\ \A r \in Repos : blob[r] \ blob'[r] # {} => LastOp.op \in {"BlobDel", "GC", "Restart"}
     /\ \A r \in Repos : DOMAIN man[r] \ DOMAIN man'[r] # {} => LastOp.op \in {"ManDel", "GC", "Restart"}
     /\ \A r \in Repos : \A t \in DOMAIN tag[r] : (t \notin DOMAIN tag'[r]) => LastOp.op \in {"ManDel", "GC", "Restart"}]_mvars
\* C03: deleting a tag keeps the manifest; deleting a digest removes every tag that pointed to it; last writer wins
TagSemantics ==
  [][/\ (LastOp.op = "ManDel" /\ LastOp.ref.k = "tag") => man' = man
     /\ (LastOp.op = "ManDel" /\ LastOp.ref.k = "dig" /\ resp'.class = "ok") =>
           \A r \in Repos : \A t \in DOMAIN tag'[r] : r = LastOp.repo => tag'[r][t] # LastOp.ref.v
     /\ (LastOp.op = "ManPut" /\ LastOp.ref.k = "tag" /\ resp'.class = "ok") =>
           tag'[LastOp.repo][LastOp.ref.v] = resp'.dig]_mvars
\* C16: an operation addressed to one repository leaves every other repository alone (mounts read their source only)
Isolation ==
  [][\A r \in Repos : ("repo" \in DOMAIN LastOp /\ r # LastOp.repo /\ LastOp.op # "Restart") =>
        blob'[r] = blob[r] /\ man'[r] = man[r] /\ tag'[r] = tag[r]]_mvars

\* generator output: one line per behaviour that reached Depth
Emit == Len(hist) = Depth => PrintT(<<"PROG", ToJson(hist)>>)

View == vars
=============================================================================
