----------------------------- MODULE MCRegistry -----------------------------
(***************************************************************************)
(* Registry as (a) an exhaustively checked model and (b) a generator of    *)
(* request programs.  The catalogue is read from cat.json (written by the  *)
(* harness: `vharness catalogue`), so model and implementation talk about  *)
(* the same universe.  In generator mode (tlc -simulate) the history of    *)
(* operation records is printed as JSON when it reaches Depth; the harness *)
(* replays it against the real server and TraceRegistry judges the result. *)
(*                                                                         *)
(* GenOps(profile) is the operation alphabet.  The guards G1..G3 keep the  *)
(* generator away from request patterns whose outcome the properties do    *)
(* not pin down (DESIGN.md section 5); guards named after a known finding  *)
(* are only active while that finding is open (constant KnownOpen).        *)
(***************************************************************************)
EXTENDS Registry, Json

CONSTANTS Profile,     \* string: which operation families are generated
          Depth,       \* length of generated programs
          KnownOpen    \* set of names of open findings (guards)

VARIABLE hist
mvars == <<vars, hist>>

CatFile == JsonDeserialize("cat.json")

GR == Repos
BlobCids == {c \in DOMAIN Cat.blobs : c # "nx"}
ManCids  == DOMAIN Cat.mans
DigsOfC(c) == {d \in Digs : CidOf(d) = c}
TagRef(t) == [k |-> "tag", v |-> t]
DigRef(d) == [k |-> "dig", v |-> d]

-----------------------------------------------------------------------------
\* guards
\* G1: an index is only pushed when each child was pushed as a manifest before (the properties do not say whether a
\*     child that exists only as a plain blob counts as "existing")
G1(r, c) == M(c).kind = "index" => \A x \in Range(M(c).children) : x \in DOMAIN man[r] \/ x \notin blob[r]
\* G2 (finding child-orphan): deleting an index by digest while one of its children is reachable only through it
Orphans(r, d) == {x \in Range(M(CidOf(d)).children) :
                    /\ x \in DOMAIN man[r]
                    /\ ~\E t \in DOMAIN tag[r] : tag[r][t] = x
                    /\ ~\E y \in DOMAIN man[r] \ {d} : x \in Range(M(CidOf(y)).children)}
G2(r, d) == "child-orphan" \in KnownOpen => Orphans(r, d) = {}
\* G2gc (finding child-orphan-gc): the same situation reached by deleting the blob of the index through the blob API
G2gc(r, d) == "child-orphan-gc" \in KnownOpen => Orphans(r, d) = {}
\* G4 (finding child-resurrect): deleting by digest a manifest that an index of the repository still lists
G4(r, d) == "child-resurrect" \in KnownOpen => ~\E y \in DOMAIN man[r] \ {d} : d \in Range(M(CidOf(y)).children)
\* G5 (finding gc-drops-response): a collection while some referrer could outlive the response that lists it
RespSurelyKept(r, a) == \/ SubjectOf(a) \in MustMan(r)
                        \/ (~Cfg.withSubj /\ ~Cfg.dangling)
                        \/ (SubjectOf(a) \notin blob[r] /\ ~Cfg.dangling)
G5(r) == "gc-drops-response" \in KnownOpen => \A a \in ManSet(r) : IsArt(a) => RespSurelyKept(r, a)
\* G1b: manifest bytes are not uploaded as a plain blob while an index that lists them is present (see G1)
G1b(r, d) == ~\E y \in DOMAIN man[r] : d \in Range(M(CidOf(y)).children)
\* G3: blobs of indexed manifests are not deleted through the blob API (index entry without content: outcome not pinned)
G3(r, d) == d \notin DOMAIN man[r]

-----------------------------------------------------------------------------
\* macro: a complete blob upload in one program step (expanded by the harness into POST/PATCH/PUT)
PushBlobOp(r, d, w) == [op |-> "PushBlob", repo |-> r, dig |-> d, chunk |-> [c |-> CidOf(d), p |-> "all"], which |-> w, alg |-> ""]
PushBlobEffect(op) ==
  /\ blob' = [blob EXCEPT ![op.repo] = @ \cup {op.dig}]
  /\ young' = [young EXCEPT ![op.repo] = @ \cup (IF op.which = "mono" THEN {op.dig} \ blob[op.repo] ELSE {op.dig})]
  /\ IF op.which = "mono" THEN UNCHANGED <<sess, nsess>>
     ELSE /\ nsess' = nsess + 1
          /\ sess' = Upd(sess, Handle(nsess + 1), [NoSess EXCEPT !.repo = op.repo])
  /\ resp' = Ok(201)
  /\ UNCHANGED <<env, base, man, tag>> /\ ClockStep

ManPutOp(r, ref, c, ct, lk, dp) ==
  [op |-> "ManPut", repo |-> r, ref |-> ref, ctype |-> ct, ctvar |-> "", body |-> c, lenKnown |-> lk, dparam |-> dp]

ManDigs == {x \in Digs : IsMan(x)}
BlobDigs == {x \in Digs : IsBlobC(CidOf(x)) /\ CidOf(x) # "nx"}
AllRefs == {TagRef(t) : t \in Tags} \cup {DigRef(d) : d \in ManDigs}
NoChunk == [c |-> "", p |-> ""]

\* operation families (state dependent sets of operation records) ---------------
\* complete blob uploads, all four protocols
OpsPushBlob == {PushBlobOp(r, d, w) : r \in GR, d \in BlobDigs, w \in {"mono", "postput", "chunked", "stream"}}
FPushBlob == {o \in OpsPushBlob : o.dig \notin blob[o.repo]}
FRePushBlob == {o \in OpsPushBlob : o.dig \in blob[o.repo]}      \* re-uploads of content the repository already holds
\* manifest bytes uploaded through the blob API (they are blobs, not manifests, until pushed as manifests)
FPushManAsBlob == {PushBlobOp(r, d, w) : r \in GR, d \in ManDigs, w \in {"mono", "postput"}}

\* manifest pushes that the specification accepts (references present), by tag / digest / ?digest=, known or unknown length
OpsManPutGood ==
  UNION { {ManPutOp(r, ref, c, ct, lk, "") :
             r \in GR, ct \in {"", M(c).mt}, lk \in BOOLEAN,
             ref \in {TagRef(t) : t \in Tags} \cup {DigRef(d) : d \in DigsOfC(c)}} : c \in ManCids }
  \cup UNION { {ManPutOp(r, TagRef(t), c, M(c).mt, TRUE, d) : r \in GR, t \in Tags, d \in DigsOfC(c)} : c \in ManCids }
FManPut == {o \in OpsManPutGood : G1(o.repo, o.body) /\ Refs(o.body) \subseteq blob[o.repo]}

\* manifest pushes that must be refused: every class of C04
BadBodies == {"junk", "empty"} \cup {"trunc:" \o c : c \in ManCids} \cup {c \in BlobCids : LenOfC(c) > 0}
OtherKindMT(c) == IF M(c).kind = "image" THEN {"oci.index", "docker.index"} ELSE {"oci.image", "docker.image"}
OpsManPutBad ==
  \* unsupported / inconsistent media type
  UNION { {ManPutOp(r, TagRef(t), c, ct, TRUE, "") : r \in GR, t \in Tags, ct \in {"bad"} \cup OtherKindMT(c)} : c \in ManCids }
  \* bodies that are no manifest
  \cup {ManPutOp(r, TagRef(t), b, ct, TRUE, "") : r \in GR, t \in Tags, b \in BadBodies, ct \in {"", "oci.image", "oci.index"}}
  \* reference is a digest of something else / malformed; ?digest= of something else
  \cup UNION { {ManPutOp(r, DigRef(d), c, M(c).mt, TRUE, "") : r \in GR, d \in Digs \ DigsOfC(c)} : c \in ManCids }
  \cup UNION { {ManPutOp(r, [k |-> "raw", v |-> v], c, M(c).mt, TRUE, "") :
                  r \in GR, v \in {"sha256:abcd", "-leading", "md5:d41d8cd98f00b204e9800998ecf8427e"}} : c \in ManCids }
  \cup UNION { {ManPutOp(r, TagRef(t), c, M(c).mt, TRUE, d) : r \in GR, t \in Tags, d \in Digs \ DigsOfC(c)} : c \in ManCids }
\* the path names the digest of something else while ?digest= is right, and the other way round (a family of its own)
FManPutDQ ==
  UNION { {ManPutOp(r, DigRef(Dig("sha256", c2)), c, M(c).mt, TRUE, dp) : r \in GR, c2 \in ManCids \ {c}, dp \in DigsOfC(c)} : c \in ManCids }
  \cup UNION { {ManPutOp(r, DigRef(d), c, M(c).mt, TRUE, Dig("sha256", c2)) : r \in GR, d \in DigsOfC(c), c2 \in ManCids \ {c}} : c \in ManCids }
\* ... and pushes whose references are not (all) present in this repository
FManPutBad == {o \in OpsManPutBad : (IsManC(o.body) /\ o.ctype = M(o.body).mt) => TRUE}
FManPutMissing == {o \in OpsManPutGood : ~(Refs(o.body) \subseteq blob[o.repo])}

OpsManGet == {[op |-> "ManGet", repo |-> r, ref |-> ref, accept |-> a, method |-> m, range |-> rg] :
                 r \in GR, ref \in AllRefs, a \in {"all", "comma", "commarev"}, m \in {"GET", "HEAD"},
                 rg \in {"", "pre", "mid", "suf"}}
FManGet == {o \in OpsManGet : Resolve(o.repo, o.ref) # "" /\ (o.method = "HEAD" => o.range = "")}
           \* a single media type: the stored one, or (for tags of indexes) the type of a child
           \cup {o \in {[op |-> "ManGet", repo |-> r, ref |-> ref, accept |-> a, method |-> "GET", range |-> ""] :
                         r \in GR, ref \in AllRefs, a \in ImageMTs \cup IndexMTs} : Resolve(o.repo, o.ref) # ""}

OpsManDel == {[op |-> "ManDel", repo |-> r, ref |-> ref] : r \in GR, ref \in AllRefs}
FManDel == {o \in OpsManDel : Resolve(o.repo, o.ref) # "" /\ (o.ref.k = "dig" => G2(o.repo, o.ref.v) /\ G4(o.repo, o.ref.v))
                              /\ (("tag-delete-drops-referrer" \in KnownOpen /\ o.ref.k = "tag")
                                    => SubjectOf(Resolve(o.repo, o.ref)) = "")}
FManDelMiss == {o \in OpsManDel : Resolve(o.repo, o.ref) = ""}

OpsBlobGet == {[op |-> "BlobGet", repo |-> r, dig |-> d, method |-> m, range |-> rg] :
                 r \in GR, d \in Digs, m \in {"GET", "HEAD"}, rg \in {"", "pre", "mid", "suf", "open", "unsat"}}
FBlobGet == {o \in OpsBlobGet : (o.dig \in blob[o.repo] \/ o.range = "") /\ (o.method = "HEAD" => o.range = "")}

OpsBlobDel == {[op |-> "BlobDel", repo |-> r, dig |-> d] : r \in GR, d \in Digs}
FBlobDel == {o \in OpsBlobDel : o.dig \in blob[o.repo] /\ G3(o.repo, o.dig)}

OpsRestart == {[op |-> "Restart"]}

\* tag listing: n absent / positive / the classes the property leaves open; last absent / a tag / between two tags
NClasses == { [n |-> "", ni |-> 0, nc |-> "none"], [n |-> "1", ni |-> 1, nc |-> "pos"], [n |-> "2", ni |-> 2, nc |-> "pos"],
              [n |-> "3", ni |-> 3, nc |-> "pos"], [n |-> "100", ni |-> 100, nc |-> "pos"],
              [n |-> "0", ni |-> 0, nc |-> "open"], [n |-> "-1", ni |-> 0, nc |-> "open"], [n |-> "x", ni |-> 0, nc |-> "open"],
              [n |-> "99999999999999999999", ni |-> 0, nc |-> "open"] }
OpsTagsList == {[op |-> "TagsList", repo |-> r, n |-> c.n, ni |-> c.ni, nc |-> c.nc, last |-> la, method |-> "GET"] :
                  r \in GR, c \in NClasses, la \in 0..(2 * Len(TagSeq) + 1)}

\* upload sessions ---------------------------------------------------------------
OpenH == {h \in DOMAIN sess : sess[h].open}
GoneH == {h \in DOMAIN sess : ~sess[h].open}
\* the content an open session is receiving ("" if nothing yet) and the next part in order
SessC(h) == LET ne == SelectSeq(sess[h].parts, LAMBDA x : x[2] # "e") IN IF ne = <<>> THEN "" ELSE ne[1][1]
NextPart(h) == LET ne == SelectSeq(sess[h].parts, LAMBDA x : x[2] # "e")
               IN IF ne = <<>> THEN "p1"
                  ELSE LET lastp == ne[Len(ne)][2] IN
                       IF lastp = "p1" THEN "p2" ELSE IF lastp = "p2" THEN "p3" ELSE "done"
UpPostOp(r, d, a, mnt, frm, ch) == [op |-> "UpPost", repo |-> r, dig |-> d, alg |-> a, mount |-> mnt, from |-> frm, chunk |-> ch]
FUpPost ==
  {UpPostOp(r, "", a, "", "", NoChunk) : r \in GR, a \in {"", "", "sha512", "sha384", "sha256", "md5x"}}
  \* monolithic, matching and mismatching digest
  \cup {UpPostOp(r, d, "", "", "", [c |-> c, p |-> "all"]) : r \in GR, d \in BlobDigs, c \in BlobCids}
  \* cross repository mount: source holds it / does not / is unknown; mount without from
  \* (G6: not for a digest the target already holds -- a memory store over a directory answers that differently
  \*  depending on where the blob lives, and no property pins it)
  \cup {o \in {UpPostOp(r, "", "", d, f, NoChunk) : r \in GR, d \in BlobDigs, f \in GR \cup {"r9", ""}} : o.mount \notin blob[o.repo]}
FUpPatchOk ==
  UNION { {[op |-> "UpPatch", repo |-> sess[h].repo, sess |-> h, cr |-> cr, st |-> "ok", chunk |-> ch] :
             cr \in {"none", "ok"},
             ch \in IF SessC(h) = "" THEN {[c |-> c, p |-> p] : c \in BlobCids, p \in {"all", "p1", "e"}}
                    ELSE IF NextPart(h) \in {"p2", "p3"} THEN {[c |-> SessC(h), p |-> NextPart(h)], [c |-> SessC(h), p |-> "e"]}
                    ELSE {[c |-> SessC(h), p |-> "e"]}} : h \in OpenH }
\* completing PUT with the digest of what was sent (any algorithm of the universe), last part or nothing more
FUpPutOk ==
  UNION { {[op |-> "UpPut", repo |-> sess[h].repo, sess |-> h, cr |-> cr, st |-> "ok", dig |-> d, chunk |-> ch] :
             cr \in {"none", "ok"},
             d \in IF SessC(h) = "" THEN BlobDigs ELSE DigsOfC(SessC(h)),
             ch \in IF SessC(h) = "" THEN {[c |-> c, p |-> "all"] : c \in BlobCids}
                    ELSE IF NextPart(h) = "p3" THEN {[c |-> SessC(h), p |-> "p3"]}
                    ELSE IF NextPart(h) = "done" THEN {[c |-> SessC(h), p |-> "e"]}
                    ELSE {}} : h \in OpenH }
FUpPutOkMatch == {o \in FUpPutOk : SessC(o.sess) # "" \/ CidOf(o.dig) = o.chunk.c}
\* everything that must be refused: stale/future/malformed offsets and tokens, other repository, finished sessions,
\* unknown ids, wrong digest, parts out of order
BadCrSt == {<<"stale", "ok">>, <<"future", "ok">>, <<"bad", "ok">>, <<"ok", "stale">>, <<"none", "future">>,
            <<"none", "b64">>, <<"none", "json">>, <<"none", "none">>}
FSessBad ==
  UNION { {[op |-> o, repo |-> sess[h].repo, sess |-> h, cr |-> x[1], st |-> x[2], dig |-> d, chunk |-> [c |-> c, p |-> "all"]] :
             o \in {"UpPatch", "UpPut"}, x \in BadCrSt, d \in BlobDigs, c \in BlobCids} : h \in OpenH }
  \cup UNION { {[op |-> o, repo |-> r, sess |-> h, cr |-> "none", st |-> "ok", dig |-> d, chunk |-> [c |-> CidOf(d), p |-> "all"]] :
             o \in {"UpPatch", "UpPut", "UpGet", "UpDel"}, r \in GR \ {sess[h].repo}, d \in BlobDigs} : h \in OpenH }
  \cup {[op |-> o, repo |-> r, sess |-> h, cr |-> "none", st |-> "ok", dig |-> d, chunk |-> [c |-> CidOf(d), p |-> "all"]] :
             o \in {"UpPatch", "UpPut", "UpGet", "UpDel"}, r \in GR, h \in GoneH \cup {"s99"}, d \in BlobDigs}
  \* wrong digest for the data / malformed digest / out of order parts
  \cup UNION { {[op |-> "UpPut", repo |-> sess[h].repo, sess |-> h, cr |-> "none", st |-> "ok", dig |-> d, chunk |-> ch] :
             d \in BlobDigs \cup {"bad:short", "bad:alg", "bad:empty"}, ch \in {[c |-> c, p |-> p] : c \in BlobCids, p \in {"all", "p2", "p3"}}} : h \in OpenH }
FSessBadReal == {o \in FSessBad : o.op # "UpPut" \/ ~(SessUsable(o.repo, o.sess) /\ InOrder(o.cr, o.st) /\ WellFormed(o.dig)
                                     /\ DataIs(Append(sess[o.sess].parts, <<o.chunk.c, o.chunk.p>>), o.dig))}
\* a completing PUT whose digest is well formed but is not the digest of the data (any algorithm of the universe),
\* in particular an algorithm other than the session's after data was already sent (Verify rescans)
FPutWrong ==
  UNION { {[op |-> "UpPut", repo |-> sess[h].repo, sess |-> h, cr |-> "none", st |-> "ok", dig |-> d, chunk |-> ch] :
             d \in Digs,
             ch \in IF SessC(h) = "" THEN {[c |-> c, p |-> "all"] : c \in BlobCids}
                    ELSE IF NextPart(h) = "p3" THEN {[c |-> SessC(h), p |-> "p3"]}
                    ELSE IF NextPart(h) = "done" THEN {[c |-> SessC(h), p |-> "e"]}
                    ELSE {[c |-> SessC(h), p |-> "e"]}} : h \in {x \in OpenH : SessC(x) # ""} }
FPutWrongReal == {o \in FPutWrong : ~DataIs(Append(sess[o.sess].parts, <<o.chunk.c, o.chunk.p>>), o.dig)}
FPutWrongAlg == {o \in FPutWrongReal : AlgOf(o.dig) # sess[o.sess].alg}
FUpGet == {[op |-> "UpGet", repo |-> sess[h].repo, sess |-> h] : h \in OpenH}
FUpDel == {[op |-> "UpDel", repo |-> sess[h].repo, sess |-> h] : h \in OpenH}

\* families and their weights (a family is drawn with probability proportional to its number of occurrences)
FamOps(f) ==
  CASE f = "pushblob" -> FPushBlob
    [] f = "repushblob" -> FRePushBlob
    [] f = "pushmanblob" -> {o \in FPushManAsBlob : G1b(o.repo, o.dig)}
    [] f = "manput"   -> FManPut
    [] f = "manputbad" -> FManPutBad
    [] f = "manputdq" -> {o \in FManPutDQ : Refs(o.body) \subseteq blob[o.repo]}
    [] f = "manputdig" -> {o \in FManPut : o.ref.k = "dig"}
    \* a manifest the repository holds, whose upload has aged, is pushed again by digest (it is recent again; when it is only
    \* tracked as the child of an index a collection must still find what it references)
    [] f = "manrepush" -> {o \in FManPut : o.ref.k = "dig" /\ o.ref.v \in DOMAIN man[o.repo] /\ o.ref.v \notin young[o.repo]}
    \* (GC scenarios only) the blob of an indexed manifest is deleted through the blob API: an index entry without content
    \* (G2gc: not the blob of an index whose children would be orphaned when the collection prunes its entry: finding child-orphan-gc)
    [] f = "blobdelman" -> {o \in OpsBlobDel : o.dig \in DOMAIN man[o.repo] /\ o.dig \in blob[o.repo] /\ ~IsArt(o.dig) /\ G2gc(o.repo, o.dig)}
    [] f = "manputmiss" -> FManPutMissing
    [] f = "mandel"   -> FManDel
    [] f = "mandelmiss" -> FManDelMiss
    [] f = "blobget"  -> FBlobGet
    [] f = "manget"   -> FManGet
    [] f = "mangetchild" -> {o \in {[op |-> "ManGet", repo |-> r, ref |-> TagRef(t), accept |-> a, method |-> m, range |-> ""] :
                                      r \in GR, t \in Tags, a \in ImageMTs, m \in {"GET", "HEAD"}} :
                               /\ o.ref.v \in DOMAIN tag[o.repo]
                               /\ KindOfMT(man[o.repo][tag[o.repo][o.ref.v]]) = "index"}
    [] f = "blobdel"  -> FBlobDel
    [] f = "restart"  -> OpsRestart
    [] f = "tagslist" -> OpsTagsList
    [] f = "uppost"   -> FUpPost
    [] f = "uppatch"  -> FUpPatchOk
    [] f = "upput"    -> FUpPutOkMatch
    [] f = "sessbad"  -> FSessBadReal
    [] f = "putwrong" -> FPutWrongReal
    [] f = "putwrongalg" -> FPutWrongAlg
    [] f = "uppostnew" -> {UpPostOp(r, "", "", "", "", NoChunk) : r \in GR}
    [] f = "tick"     -> {[op |-> "Tick", ni |-> n] : n \in {1300, 2400, 3700}}
    [] f = "upget"    -> FUpGet
    [] f = "updel"    -> FUpDel
    [] f = "gc"       -> {[op |-> "GC", repo |-> r] : r \in GR}
    [] f = "age"      -> {[op |-> "Age", repo |-> r] : r \in GR}
    [] f = "reconf"   -> {[op |-> "Reconf", newcfg |-> c] : c \in Range(CatFile.reconf)}
    [] f = "manputany" -> OpsManPutGood          \* also when the configuration refuses it
    [] f = "mandelany" -> {o \in OpsManDel : o.ref.k = "dig" => (Resolve(o.repo, o.ref) = "" \/ (G2(o.repo, o.ref.v) /\ G4(o.repo, o.ref.v)))}
    [] f = "blobdelany" -> {o \in OpsBlobDel : G3(o.repo, o.dig)}
    [] f = "mountbad" -> {o \in {UpPostOp(r, "", "", d, f2, NoChunk) : r \in GR, d \in BlobDigs,
                                 f2 \in {"raw:../victim", "raw:../../victim", "raw:proj/../../victim", "raw:/victim"}} : o.mount \notin blob[o.repo]}
    [] f = "gcrefs"   -> {[op |-> "GC", repo |-> r] : r \in {x \in GR : G5(x)}}
    \* a collection in the states where the referrer switches matter: a referrer whose subject is held only as a blob,
    \* or is not held at all
    [] f = "gcsubj"   -> {[op |-> "GC", repo |-> r] : r \in {x \in GR : G5(x) /\ \E a \in ManSet(x) : IsArt(a) /\ SubjectOf(a) \notin DOMAIN man[x]}}
    [] f = "gcpass"   -> {[op |-> "GCPass"]}
    [] f = "mkcorrupt" -> {[op |-> "MkCorrupt", repo |-> "raw:zzz/broken", which |-> w] : w \in {"corrupt", "phantom", "removed"}}
    [] OTHER -> {}

Weights ==
  CASE Profile = "push" -> <<"pushblob", "pushblob", "pushblob", "manput", "manput", "manput", "manput", "mandel",
                             "blobget", "manget", "blobdel", "restart">>
    \* content pushed to a directory store, the server re-opened as a memory store over that directory, the content pushed
    \* again (it is then held twice), deleted and collected
    [] Profile = "gcmd" -> <<"pushblob", "pushblob", "manput", "manput", "manput", "reconf", "repushblob", "repushblob", "manputdig", "manput",
                             "mandel", "mandel", "gc", "gc", "gc", "blobdel">>
    \* pushes, deletes and re-pushes of content whose first upload has aged, restarts (a directory store collects on Close)
    [] Profile = "pushage" -> <<"pushblob", "pushblob", "repushblob", "repushblob", "manput", "manput", "manput", "mandel", "mandel",
                                "age", "age", "restart", "restart", "blobdel", "manrepush">>
    [] Profile = "pull" -> <<"pushblob", "pushblob", "pushblob", "manput", "manput", "manput", "manput", "manput", "mangetchild",
                             "mangetchild", "mangetchild", "manget", "manget", "blobget", "mandel", "restart", "repushblob">>
    [] Profile = "tags" -> <<"pushblob", "pushblob", "manput", "manput", "manput", "manput", "mandel", "mandel",
                             "tagslist", "tagslist", "manget", "restart", "mandelmiss">>
    [] Profile = "manput" -> <<"pushblob", "pushblob", "manput", "manput", "manputbad", "manputbad", "manputbad", "manputdq", "manputdq",
                               "manputmiss", "manputmiss", "manputmiss", "mandel", "mandel", "blobdel", "blobdel", "pushmanblob", "blobdelman">>
    \* C04: references that were there and are gone again (the blob of a pushed manifest deleted through the blob API, a
    \* config or layer deleted) when the manifest or index that names them is pushed
    [] Profile = "manputdel" -> <<"pushblob", "pushblob", "manput", "manput", "manput", "blobdelman", "blobdelman", "blobdel", "manputmiss",
                                  "manputmiss", "manputmiss", "manputmiss", "mandel">>
    [] Profile = "refs" -> <<"pushblob", "pushblob", "manput", "manput", "manput", "manput", "mandel", "mandel", "restart">>
    [] Profile = "gc" -> <<"pushblob", "pushblob", "repushblob", "manput", "manput", "manput", "manput", "manput", "mandel", "mandel",
                           "blobdel", "gc", "gc", "gcsubj", "gcsubj", "gcsubj", "age", "age", "restart", "restart", "pushmanblob",
                           "blobdelman", "blobdelman", "manputdig", "manputdig", "manrepush", "manrepush", "mandelmiss">>
    \* tags moved and deleted over two manifests, then collections: the order of the entries of one digest in the index
    \* (tagged, untagged left-over of a deleted tag) must not matter to what a collection keeps
    [] Profile = "gctags" -> <<"pushblob", "manput", "manput", "manput", "manput", "mandel", "mandel", "mandel", "age", "gc", "gc", "restart">>
    [] Profile = "layout" -> <<"pushblob", "pushblob", "manput", "manput", "manput", "manputdig", "manputdig", "mandel", "mandel", "blobdel",
                               "gc", "gc", "age", "restart", "restart", "uppost", "uppatch", "upput", "updel">>
    [] Profile = "ro" -> <<"pushblob", "pushblob", "manput", "manput", "manput", "mandel", "reconf", "reconf",
                           "manputany", "mandelany", "blobdelany", "uppost", "uppatch", "upput", "gc", "gcpass", "restart",
                           "blobget", "manget", "tagslist">>
    [] Profile = "iso" -> <<"pushblob", "pushblob", "manput", "manput", "manput", "mandel", "uppost", "uppost", "uppatch",
                            "upput", "sessbad", "mountbad", "mountbad", "restart", "gc", "blobdel", "manputmiss", "manputmiss",
                            "mangetchild", "manget">>
    [] Profile = "gcrefs" -> <<"pushblob", "pushblob", "manput", "manput", "manput", "manput", "manput", "mandel", "mandel",
                               "gcrefs", "gcsubj", "gcsubj", "gcsubj", "age", "pushmanblob", "pushmanblob", "restart">>
    \* referrers pushed by digest (untagged) next to tagged ones, collections in between
    [] Profile = "gcrefs2" -> <<"pushblob", "pushblob", "manputdig", "manputdig", "manputdig", "manput", "manput", "mandel",
                                "gcrefs", "gcrefs", "gcrefs", "restart">>
    [] Profile = "gcpass" -> <<"pushblob", "pushblob", "manput", "manput", "manput", "manput", "mandel", "blobdel",
                               "gcpass", "gcpass", "age", "age", "mkcorrupt">>
    [] Profile = "sess" -> <<"uppost", "uppost", "uppatch", "uppatch", "uppatch", "upput", "upput", "sessbad", "sessbad",
                             "putwrong", "putwrongalg", "upget", "updel", "restart", "blobget">>
    \* sessions under a small limit and the grace period: eviction and expiry at any point (C08)
    [] Profile = "sessx" -> <<"uppostnew", "uppostnew", "uppostnew", "uppost", "uppatch", "uppatch", "uppatch", "upput", "upget", "upget",
                              "updel", "sessbad", "tick", "tick", "tick", "restart", "pushblob">>
    [] Profile = "upload" -> <<"pushblob", "repushblob", "uppost", "uppost", "uppatch", "uppatch", "uppatch", "upput", "upput", "sessbad",
                               "putwrong", "putwrongalg", "putwrongalg", "manput", "manput", "manputbad", "manputdq", "manputdq", "manputdq", "blobget", "manget", "blobdel">>
    [] OTHER -> <<"pushblob", "manput", "mandel">>

Cands(f) == FamOps(f)

\* the generator's own idea of a count prune after a plain new session (the validator binds evictions to what was observed)
GenUpPostNew(op) ==
  LET h == Handle(nsess + 1)
      s1 == Upd(sess, h, [NoSess EXCEPT !.repo = op.repo, !.alg = "sha256", !.open = TRUE, !.used = clk.now])
      openR == {x \in DOMAIN s1 : s1[x].open /\ s1[x].repo = op.repo}
      k == IF UploadMax > 0 /\ Cardinality(openR) > UploadMax THEN Cardinality(openR) - SessMin ELSE 0
      ev == {x \in openR : Cardinality({y \in openR : s1[y].used < s1[x].used}) < k}
  IN /\ nsess' = nsess + 1
     /\ sess' = [x \in DOMAIN s1 |-> IF x \in ev THEN [s1[x] EXCEPT !.open = FALSE] ELSE s1[x]]
     /\ resp' = [Ok(202) EXCEPT !.sess = h, !.off = 0]
     /\ UNCHANGED <<env, base, blob, man, tag, young>> /\ ClockStep
PlainNew(op) == op.op = "UpPost" /\ op.dig = "" /\ op.mount = "" /\ op.alg = "" /\ CanPush /\ op.repo \in Repos
\* the generator's idea of a restart of a writable directory store: Close collects every repository (the validator binds
\* that collection to the observation; without it the guards would be evaluated on manifests that are already gone)
GenRestartDir ==
  /\ sess' = [h \in DOMAIN sess |-> [sess[h] EXCEPT !.open = FALSE]]
  /\ blob' = [r \in Repos |-> blob[r] \cap MayBlobs(r)]
  /\ man' = [r \in Repos |-> Restrict(man[r], GCKeepMan(r))]
  /\ tag' = [r \in Repos |-> Restrict(tag[r], {t \in DOMAIN tag[r] : tag[r][t] \in GCKeepMan(r)})]
  /\ young' = [r \in Repos |-> young[r] \cap MayBlobs(r)]
  /\ resp' = Ok(0)
  /\ UNCHANGED <<nsess, base, env>> /\ ClockStep
GenDo(op) == IF op.op = "PushBlob" THEN PushBlobEffect(op)
             ELSE IF PlainNew(op) THEN GenUpPostNew(op)
             ELSE IF op.op = "Restart" /\ env.store = "dir" /\ ~Cfg.readOnly /\ ~GCNoop THEN GenRestartDir
             ELSE Do(op)

MCInit ==
  /\ env = [cat |-> CatFile, cfg |-> CatFile.cfg, store |-> CatFile.cfg.store, trace |-> "mc"]
  /\ InitState
  /\ hist = <<>>

\* one random successor per step: first a family (weighted), then an operation of that family (uniform).
\* RandomElement makes the walk a function of the simulation seed.
MCNext ==
  /\ Len(hist) < Depth
  \* bound once through singleton sets (a LET definition would be re-evaluated at every use); up to three draws of a
  \* family before falling back to the first one, which is never empty
  /\ \E i \in {RandomElement(DOMAIN Weights)} : \E j \in {RandomElement(DOMAIN Weights)} : \E k \in {RandomElement(DOMAIN Weights)} :
       \E f \in {IF Cands(Weights[i]) # {} THEN i ELSE IF Cands(Weights[j]) # {} THEN j
                  ELSE IF Cands(Weights[k]) # {} THEN k
                  ELSE CHOOSE x \in DOMAIN Weights : Cands(Weights[x]) # {}} :
         \E op \in {RandomElement(Cands(Weights[f]))} :
            GenDo(op) /\ hist' = Append(hist, op)

MCSpec == MCInit /\ [][MCNext]_mvars

\* exhaustive mode: every useful operation of every family, up to Depth operations
Families == {Weights[i] : i \in DOMAIN Weights}
MCNextAll ==
  /\ Len(hist) < Depth
  /\ \E f \in Families : \E op \in Cands(f) : GenDo(op) /\ hist' = Append(hist, op)
MCSpecAll == MCInit /\ [][MCNextAll]_mvars

LastOp == hist'[Len(hist')]

\* model-level theorems (the specification is consistent with the properties it is the oracle for)
\* C01/C04/C08: a refused request changes nothing that can be read
RefusedChangesNothing ==
  [][resp'.class = "refused" => /\ UNCHANGED <<blob, man, tag, young, nsess>>
                                /\ \A h \in DOMAIN sess : sess'[h].parts = sess[h].parts /\ sess'[h].off = sess[h].off]_mvars
\* C02: content disappears only through an explicit delete, a collection, or the restart of a memory store
Persistence ==
  [][/\ \A r \in Repos : blob[r] \ blob'[r] # {} => LastOp.op \in {"BlobDel", "GC", "GCPass", "Restart", "Reconf"}
     /\ \A r \in Repos : DOMAIN man[r] \ DOMAIN man'[r] # {} => LastOp.op \in {"ManDel", "GC", "GCPass", "Restart", "Reconf"}
     /\ \A r \in Repos : \A t \in DOMAIN tag[r] : (t \notin DOMAIN tag'[r]) => LastOp.op \in {"ManDel", "GC", "GCPass", "Restart", "Reconf"}]_mvars
\* C03: deleting a tag keeps the manifest; deleting a digest removes every tag that pointed to it; last writer wins
TagSemantics ==
  [][/\ (LastOp.op = "ManDel" /\ LastOp.ref.k = "tag") => man' = man
     /\ (LastOp.op = "ManDel" /\ LastOp.ref.k = "dig" /\ resp'.class = "ok") =>
           \A r \in Repos : \A t \in DOMAIN tag'[r] : r = LastOp.repo => tag'[r][t] # LastOp.ref.v
     /\ (LastOp.op = "ManPut" /\ LastOp.ref.k = "tag" /\ resp'.class = "ok") =>
           tag'[LastOp.repo][LastOp.ref.v] = resp'.dig]_mvars
\* C16: an operation addressed to one repository leaves every other repository alone (mounts read their source only)
Isolation ==
  [][\A r \in Repos : ("repo" \in DOMAIN LastOp /\ r # LastOp.repo /\ LastOp.op \notin {"Restart", "Reconf", "GCPass"}) =>
        blob'[r] = blob[r] /\ man'[r] = man[r] /\ tag'[r] = tag[r]]_mvars

\* generator output: one line per behaviour that reached Depth
Emit == Len(hist) = Depth => PrintT(<<"PROG", ToJson(hist)>>)

View == vars
=============================================================================
