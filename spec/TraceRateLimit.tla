---------------------------- MODULE TraceRateLimit ----------------------------
(* Validates logged request sequences of the real rate limiter.  Times are milliseconds measured by the driver       *)
(* right before each request; a request within Slack ms of a window boundary may be accounted either way.            *)
EXTENDS Integers, Sequences, FiniteSets, TLC, Json
VARIABLES l, first, count, amb, fails, stats
Trace == ndJsonDeserialize("trace.ndjson")
Slack == 40
Sec == 1000
Get(f, a, d) == IF a \in DOMAIN f THEN f[a] ELSE d
Put(f, a, v) == [x \in DOMAIN f \cup {a} |-> IF x = a THEN v ELSE f[x]]
TraceInit == l = 1 /\ first = <<>> /\ count = <<>> /\ amb = {} /\ fails = <<>> /\ stats = [events |-> 0, checked |-> 0, limited |-> 0]
TraceNext ==
  /\ l <= Len(Trace) /\ l' = l + 1
  /\ LET e == Trace[l] IN
     IF e.k = "reset"
     THEN first' = <<>> /\ count' = <<>> /\ amb' = {} /\ UNCHANGED fails /\ stats' = [stats EXCEPT !.events = @ + 1]
     ELSE LET f == Get(first, e.a, -100000)
              d == e.t - f
              fresh == d > Sec
              near == d > Sec - Slack /\ d < Sec + Slack
              c == IF fresh THEN 1 ELSE Get(count, e.a, 0) + 1
              served == e.status # 429
              expect == c <= e.limit
              \* once an ambiguous boundary was met for this address the accounting is unknown until its next clear window
              unknown == near \/ (e.a \in amb /\ ~fresh)
              ok == unknown \/ (served = expect)
          IN /\ first' = IF fresh THEN Put(first, e.a, e.t) ELSE first
             /\ count' = Put(count, e.a, c)
             /\ amb' = IF near THEN amb \cup {e.a} ELSE IF fresh THEN amb \ {e.a} ELSE amb
             /\ fails' = IF ok THEN fails ELSE Append(fails, [i |-> e.i, a |-> e.a, t |-> e.t, status |-> e.status, count |-> c, limit |-> e.limit])
             /\ stats' = [events |-> stats.events + 1, checked |-> stats.checked + (IF unknown THEN 0 ELSE 1),
                          limited |-> stats.limited + (IF served THEN 0 ELSE 1)]
TraceSpec == TraceInit /\ [][TraceNext]_<<l, first, count, amb, fails, stats>>
Consumed == TLCGet("stats").diameter = Len(Trace) + 1
Report == l = Len(Trace) + 1 => PrintT(<<"VERDICT", ToJson([fails |-> fails, stats |-> stats])>>)
=============================================================================
