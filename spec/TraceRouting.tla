----------------------------- MODULE TraceRouting -----------------------------
(* Validates logged (request class, answer) pairs of the real server against the table of Routing (C15). *)
EXTENDS Routing, Json

VARIABLES l, fails, stats
Trace == ndJsonDeserialize("trace.ndjson")

TraceInit == l = 1 /\ fails = <<>> /\ stats = [events |-> 0, checked |-> 0]
TraceNext ==
  /\ l <= Len(Trace)
  /\ l' = l + 1
  /\ LET e == Trace[l]
         ok == Fits(e.req, e.store, e.resp)
     IN /\ fails' = IF ok \/ Len(fails) >= 200 THEN fails
                    ELSE Append(fails, [i |-> e.i, store |-> e.store, req |-> e.req, status |-> e.resp.status,
                                        codes |-> e.resp.codes, panic |-> e.resp.panic, variant |-> e.variant,
                                        allowed |-> Expected(e.req, e.store)])
        /\ stats' = [events |-> stats.events + 1, checked |-> stats.checked + 1]
TraceSpec == TraceInit /\ [][TraceNext]_<<l, fails, stats>>
Consumed == TLCGet("stats").diameter = Len(Trace) + 1
Report == l = Len(Trace) + 1 => PrintT(<<"VERDICT", ToJson([fails |-> fails, stats |-> stats])>>)
=============================================================================
