----------------------------- MODULE MCHandlers -----------------------------
(* Episodes for Handlers: which setups and request combinations are explored, and the emission of complete schedules. *)
EXTENDS Handlers, Json
CONSTANT Family      \* "pairs": every pair of the menu; "triples": triples of the updates; "demo": two referrer pushes;
                     \* "gcpairs" / "gctriples": a collection of the repository among the requests
Menu == {Put("a1", None), Put("a2", None), Put("a2", "t2"), Put("m2", "t1"), Put("m1", "t2"), Del("a1", None), Del("a2", None),
         Del("m1", None), Del(None, "t1"), Refs("m1"), Get("t1"), TagsL, BPut("b4"), BDel("b3"), BDel("b2"), BGet("b3")}
Updates == {Put("a1", None), Put("a2", None), Del("a1", None), Del("a2", None), Put("m2", "t1"), Refs("m1"), BDel("b3"), BPut("b3")}
MCSetups == IF Family = "demo" THEN {"s0"} ELSE {"s0", "s1", "s2", "s3"}
MCCombos == CASE Family = "pairs"   -> {<<a, b>> : a \in Menu, b \in Menu}
              [] Family = "gcpairs" -> {<<a, GCReq>> : a \in Menu}
              [] Family = "gctriples" -> {<<a, GCReq, b>> : a \in Updates, b \in Updates}
              [] Family = "triples" -> {<<a, b, c>> : a \in Updates, b \in Updates, c \in Updates}
              [] Family = "demo"    -> {<<Put("a1", None), Put("a2", None)>>}
\* emitted at quiescence (simulation mode: one line per behaviour)
ResJ(p) == [st |-> p.st, res |-> p.res]
Emit == Quiet => PrintT(<<"EPISODE", ToJson([setup |-> setup, reqs |-> reqs,
                                              sched |-> [k \in DOMAIN sched |-> [a |-> sched[k][1], c |-> sched[k][2]]],
                                              final |-> [tags |-> ix.tags, mans |-> ix.mans, refs |-> AbsOf(ix).refs, blobs |-> bblobs],
                                              results |-> [i \in DOMAIN procs |-> ResJ(procs[i])]])>>)
=============================================================================
