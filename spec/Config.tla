------------------------------- MODULE Config -------------------------------
(***************************************************************************)
(* C19: every setting has its documented effect, for every combination.    *)
(*                                                                         *)
(* A combination is a record of the serve flags / configuration fields     *)
(*   push, delete, blobDelete, referrers, readOnly ("true"/"false"/"unset"),*)
(*   store ("mem", "dir"), warnings (0..2 messages), rateLimit (0 = off).  *)
(* Effective(c) applies the documented defaults (config.SetDefaults, the   *)
(* flag defaults of cmd/olareg serve); Outcome(c, class) is the documented *)
(* answer class of one representative request per API class against a     *)
(* directory that was populated beforehand: "ok" (2xx), "refused" (4xx),   *)
(* and for every response the exact list of Warning headers.               *)
(***************************************************************************)
EXTENDS Integers, Sequences, FiniteSets, TLC

Tri == {"true", "false", "unset"}
Classes == {"ping", "manifestGet", "blobGet", "tagsList", "referrersGet", "manifestPut", "uploadPost", "uploadPatch",
            "manifestDelete", "blobDelete", "artifactPutImage", "artifactPutIndex"}

Combos == [push : Tri, delete : Tri, blobDelete : Tri, referrers : Tri, readOnly : Tri,
           store : {"mem", "dir"}, warnings : 0..2, rateLimit : {0, 1000}]

Default == [push |-> TRUE, delete |-> FALSE, blobDelete |-> FALSE, referrers |-> TRUE, readOnly |-> FALSE]
Eff(c, f) == IF c[f] = "unset" THEN Default[f] ELSE c[f] = "true"

\* documented outcome of the representative request of a class
Outcome(c, class) ==
  LET push == Eff(c, "push") /\ ~Eff(c, "readOnly")
      del  == Eff(c, "delete") /\ ~Eff(c, "readOnly")
  IN CASE class \in {"ping", "manifestGet", "blobGet", "tagsList"} -> "ok"
       [] class = "referrersGet"   -> IF Eff(c, "referrers") THEN "ok" ELSE "refused"
       [] class \in {"manifestPut", "uploadPost", "uploadPatch", "artifactPutImage", "artifactPutIndex"} -> IF push THEN "ok" ELSE "refused"
       [] class = "manifestDelete" -> IF del THEN "ok" ELSE "refused"
       [] class = "blobDelete"     -> IF del /\ Eff(c, "blobDelete") THEN "ok" ELSE "refused"

\* the flags change exactly the corresponding behaviour: two combinations that differ only in one switch differ only
\* in the classes that switch governs (checked on the table itself by TLC)
PushClasses == {"manifestPut", "uploadPost", "uploadPatch", "artifactPutImage", "artifactPutIndex"}
Governs(f) == CASE f = "push" -> PushClasses
                [] f = "delete" -> {"manifestDelete", "blobDelete"}
                [] f = "blobDelete" -> {"blobDelete"}
                [] f = "referrers" -> {"referrersGet"}
                [] f = "readOnly" -> PushClasses \cup {"manifestDelete", "blobDelete"}
Switches == {"push", "delete", "blobDelete", "referrers", "readOnly"}
ExactEffect(c) ==
  \A f \in Switches : \A v \in Tri :
     LET c2 == [c EXCEPT ![f] = v] IN
     \A class \in Classes \ Governs(f) : Outcome(c2, class) = Outcome(c, class)

\* does a logged answer fit ?  (resp: [status, warnings: sequence of header values])
Fits(c, class, resp) ==
  /\ (Outcome(c, class) = "ok") <=> (resp.status \in 200..299)
  /\ (Outcome(c, class) = "refused") <=> (resp.status \in 400..499)
  /\ resp.status # 429
  \* the push of a manifest with a subject is acknowledged as a referrer (OCI-Subject) exactly when the referrers API is on
  /\ (class \in {"artifactPutImage", "artifactPutIndex"} /\ resp.status \in 200..299) => (resp.subject <=> Eff(c, "referrers"))
  /\ (class \notin {"artifactPutImage", "artifactPutIndex"}) => ~resp.subject
  /\ Len(resp.warnings) = c.warnings
  /\ \A i \in DOMAIN resp.warnings : resp.warnings[i] = i
=============================================================================
