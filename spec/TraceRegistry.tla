--------------------------- MODULE TraceRegistry ---------------------------
(***************************************************************************)
(* Trace validation: is a recorded execution of the real olareg server a   *)
(* behaviour of Registry?                                                  *)
(*                                                                         *)
(* trace.ndjson holds many traces; each starts with a "reset" line (store  *)
(* kind, configuration, catalogue) followed by one "op" line per request:  *)
(* the abstract operation, the projected response and the state observed   *)
(* through the API (and the directory) right after it.  Every event is     *)
(* fully logged, so validation is deterministic and linear: the event's    *)
(* operation is applied to the model (Do) and the named clauses compare    *)
(* the prediction with what was logged.  A failing clause is recorded in   *)
(* `fails` (trace, event number, clause names) and the rest of that trace  *)
(* is skipped, so one run reports the first deviation of every trace.      *)
(* Focus selects the property whose clauses are enforced.                  *)
(***************************************************************************)
EXTENDS GCImpl, Json

CONSTANTS Focus      \* set of property ids, e.g. {"C02"}

VARIABLES pre,     \* [blob, man, tag] before the last operation (C09: what a crash during it may fall back to)
          lastop,  \* the last operation record
          prevobs, \* observation logged with the previous event
          rsum,    \* digest of the root directory tree after the previous event
          osum,    \* digest of everything next to the root directory (sentinels) after the previous event
          lastgc, \* repository collected by the immediately preceding event ("" otherwise)
          l,      \* next line of the trace file
          skip,   \* the current trace already failed: ignore its remaining events
          fails,  \* sequence of failure records
          stats   \* [events, checked]: counters for the evidence

tvars == <<vars, pre, lastop, prevobs, rsum, osum, lastgc, l, skip, fails, stats>>

Trace == ndJsonDeserialize("trace.ndjson")

S(q) == {q[i] : i \in DOMAIN q}
EnvOf(e) == [cat |-> e.cat, cfg |-> e.cfg, store |-> e.store, trace |-> e.trace]
ReposOf(en) == {en.cat.repos[i] : i \in DOMAIN en.cat.repos}

-----------------------------------------------------------------------------
\* clauses; all of them are evaluated on the step  state --Do(e.op)--> state'
RespClass(e) == IF e.resp.panic \/ e.resp.hung THEN "error"
                ELSE IF e.resp.status \in 200..299 THEN "ok"
                ELSE IF e.resp.status \in 400..499 THEN "refused"
                ELSE "error"

IsRead(e)  == e.op.op \in {"BlobGet", "ManGet"}
IsEnv(e)   == e.op.op \in {"Restart", "Reconf", "GC", "GCPass", "Age", "MkCorrupt", "ProbeAll", "Tick", "Evict"}

\* the response: class, pinned status, and the fields the properties name
\* an event during which one file system call of the store failed (injected, harness command `fault`): the response is
\* not pinned (storage was not healthy), the state is bound to the observation (FaultBind) and judged by fault.safe
IsFault(e) == "fault" \in DOMAIN e
CResp(e) ==
  LET p == resp' IN
  /\ IsFault(e) \/ IsEnv(e) \/ p.class = "any" \/ RespClass(e) = p.class
  /\ (p.status # 0 /\ ~IsEnv(e)) => e.resp.status = p.status
  /\ (p.dig # "" /\ e.op.op \in {"UpPost", "UpPut"}) => e.resp.locdig = p.dig
  /\ (p.dig # "" /\ e.op.op = "ManPut") => e.resp.dig = p.dig /\ e.resp.locdig = p.dig
  /\ (e.op.op = "ManPut" /\ p.class = "ok") => e.resp.subject = p.subject
  /\ p.sess # "" => e.resp.sess = p.sess
  /\ (p.off # -1 /\ e.op.op = "UpGet") => e.resp.off = p.off /\ e.resp.stoff = p.off
  /\ (p.off # -1 /\ e.op.op \in {"UpPatch", "UpPost"}) => e.resp.stoff = p.off
  /\ (p.off # -1 /\ e.op.op = "UpPatch") => e.resp.off = p.off
  /\ (IsRead(e) /\ p.class = "ok") =>
        /\ e.resp.dig = p.dig /\ e.resp.body = p.body /\ e.resp.bodyok
        /\ (e.op.op = "ManGet" => e.resp.ctype = p.mt)

\* C03: the answer to an explicit tag listing; for n <= 0, oversized or non numeric n the property only asks for
\* a valid (possibly empty) listing: duplicate free, sorted, only current tags after `last`
CTagsResp(e) ==
  e.op.op = "TagsList" =>
    LET L == e.resp.list
        r == e.op.repo
    IN /\ e.resp.status = 200 /\ e.resp.listok /\ ~e.resp.panic
       /\ IF e.op.nc = "open"
          THEN /\ S(L) \subseteq AfterLast(DOMAIN tag'[r], e.op.last)
               /\ \A i \in 1..(Len(L) - 1) : TagRank(L[i]) < TagRank(L[i + 1])
          ELSE L = resp'.list /\ e.resp.link = resp'.link

\* C01: whatever was served hashes to the digest it was served under (measured by the observer with the real hash)
CIntegrity(e) ==
  \A r \in DOMAIN e.obs : LET o == e.obs[r] IN o.blobsbad = <<>> /\ o.mansbad = <<>> /\ o.tagsbad = <<>>

ModelMans(r) == {<<d, man'[r][d]>> : d \in {x \in DOMAIN man'[r] : x \in blob'[r]}}
ModelTags(r) == {<<t, tag'[r][t]>> : t \in {x \in DOMAIN tag'[r] : tag'[r][x] \in blob'[r]}}

CSyncBlobs(e) == \A r \in DOMAIN e.obs : S(e.obs[r].blobs) = blob'[r]
CSyncMans(e)  == \A r \in DOMAIN e.obs : {<<x.d, x.mt>> : x \in S(e.obs[r].mans)} = ModelMans(r)
CSyncTags(e)  == \A r \in DOMAIN e.obs : {<<x.t, x.d>> : x \in S(e.obs[r].tags)} = ModelTags(r)

\* C03: the listing is exactly the resolvable tags, each once, in lexical order
CTagList(e) ==
  \A r \in DOMAIN e.obs : LET o == e.obs[r] IN
     \/ o.tagst = 200 /\ o.taglist = SortTags(DOMAIN tag'[r])
     \/ o.tagst = 404 /\ DOMAIN tag'[r] = {}          \* a repository that holds nothing may be unknown

\* C07: referrers(S) = present manifests whose subject is S, each once, fields right, filter exact and announced
CRefs(e) ==
  \A r \in DOMAIN e.obs : \A x \in S(e.obs[r].refs) :
     IF ~Cfg.referrers THEN x.st = 404
     ELSE LET U == {y \in DOMAIN man'[r] : SubjectOf(y) = x.s}
              \* a descriptor that does not fit on a page of its own is left out (page1: size of that page, from the catalogue)
              Fits(d) == Cfg.refLimit = 0 \/ "page1" \notin DOMAIN Cat.digs[d] \/ Cat.digs[d].page1 <= Cfg.refLimit
              E == {d \in U : (x.f = "" \/ ATOf(d) = x.f) /\ Fits(d)} IN
          /\ x.st = 200
          /\ S(x.list) = E /\ Len(x.list) = Cardinality(E)
          /\ x.bad = <<>>
          /\ x.ct /\ ~x.loop /\ x.warm
          /\ ((x.f # "" /\ U # {}) => x.fa)      \* the filter announces itself (not demanded of the empty answer for an unknown subject)
          /\ (Cfg.refLimit > 0 => \A i \in DOMAIN x.pages : x.pages[i] <= Cfg.refLimit)

\* C16: nothing of another repository's referrers is served through this one, whatever cache / page parameters are sent
CRefsForeign(e) == \A r \in DOMAIN e.obs : "refsforeign" \notin DOMAIN e.obs[r] \/ e.obs[r].refsforeign = <<>>

\* C08: a session exists exactly while the model says it is open; the number of open sessions is exact
CSess(e) ==
  \A r \in DOMAIN e.obs : LET o == e.obs[r] IN
     /\ \A x \in S(o.sess) : (x.st = 204) <=> (x.h \in DOMAIN sess' /\ sess'[x.h].open)
     /\ o.nsess = Cardinality({h \in DOMAIN sess' : sess'[h].open /\ sess'[h].repo = r})

\* C08: a count prune removed the least recently used sessions down to the lower mark (policy of the bound step), and
\* once no prune is pending no repository holds more sessions than configured
CEvict(e) == /\ (e.op.op = "Evict" => EvictOK(EvictedOf(e.op)))
             /\ (("pending" \in DOMAIN e /\ e.pending = 0 /\ UploadMax > 0) =>
                    \A r \in DOMAIN e.obs : e.obs[r].nsess <= UploadMax)

\* C15: nothing met while executing or observing was a panic, a hang or a 5xx
CNoErr(e) ==
  /\ ~e.resp.panic /\ ~e.resp.hung /\ ((IsEnv(e) /\ e.op.op # "ProbeAll") \/ IsFault(e) \/ e.resp.status < 500)
  /\ \A r \in DOMAIN e.obs : e.obs[r].errs = <<>>

\* C05 / C06: a collection (op GC, or the collection a directory store runs on Close = op Restart).  `pre` is the
\* state before, the observation is the state after.  Evaluated per collected repository.
GCRepos(e) == IF Cfg.readOnly THEN {}
              ELSE IF e.op.op = "GC" THEN {e.op.repo} \cap DOMAIN e.obs
              ELSE IF e.op.op = "GCPass" THEN DOMAIN e.obs
              ELSE IF e.op.op = "Restart" /\ env.store = "dir" /\ ~Cfg.readOnly THEN DOMAIN e.obs ELSE {}
ObsB(e, r) == S(e.obs[r].blobs)
ObsM(e, r) == {x.d : x \in S(e.obs[r].mans)}
ObsT(e, r) == {<<x.t, x.d>> : x \in S(e.obs[r].tags)}
\* nothing retained or recent is removed, nothing appears, tags and media types of what stays are untouched
CGCSafe(e) ==
  \A r \in GCRepos(e) :
     /\ MustBlobs(r) \subseteq ObsB(e, r)
     /\ MustAddr(r) \subseteq ObsM(e, r)
     /\ ObsB(e, r) \subseteq blob[r] /\ ObsM(e, r) \subseteq ManSet(r)
     /\ ObsT(e, r) = {<<t, tag[r][t]>> : t \in {x \in DOMAIN tag[r] : tag[r][x] \in blob[r]}}
     /\ \A x \in S(e.obs[r].mans) : x.mt = man[r][x.d]
\* once nothing is young, exactly the garbage is gone
CGCExact(e) ==
  \A r \in GCRepos(e) :
     Young(r) = {} => /\ ObsB(e, r) \subseteq MayBlobs(r)
                      \* (a manifest whose blob stays in another role, e.g. as a layer, may stay addressable)
                      /\ ObsM(e, r) \subseteq MayMan(r) \cup MayBlobs(r)
\* a second collection right after a collection changes nothing
CGCIdem(e) ==
  (e.op.op = "GC" /\ lastgc = e.op.repo /\ e.op.repo \in DOMAIN e.obs) =>
     /\ ObsB(e, e.op.repo) = blob[e.op.repo] /\ ObsM(e, e.op.repo) = ManSet(e.op.repo)

\* C10: the directory of a directory store is a valid OCI layout that describes exactly the API-visible state
HasDisk(e, r) == env.store = "dir" /\ "disk" \in DOMAIN e.obs[r]
ManSetP(r) == {d \in DOMAIN man'[r] : d \in blob'[r]}
RECURSIVE Desc(_, _)
Desc(r, R) == LET n == R \cup UNION {Range(M(CidOf(d)).children) : d \in {x \in R : IsMan(x) /\ M(CidOf(x)).kind = "index"}}
              IN IF n = R THEN R ELSE Desc(r, n)
CDiskLayout(e) ==
  \A r \in DOMAIN e.obs : HasDisk(e, r) =>
     LET d == e.obs[r].disk IN
     /\ (blob'[r] # {} \/ DOMAIN man'[r] # {}) => d.exists /\ d.layout = "ok" /\ d.index = "ok"
     /\ (d.exists /\ d.index # "missing") => d.layout = "ok" /\ d.index = "ok"
     /\ d.badfiles = <<>> /\ d.stray = <<>>
CDiskIndex(e) ==
  \A r \in DOMAIN e.obs : (HasDisk(e, r) /\ e.obs[r].disk.index = "ok") =>
     LET d == e.obs[r].disk
         E == S(d.entries)
         top == {x.d : x \in E}
     IN /\ \A t \in Tags : Cardinality({i \in DOMAIN d.entries : d.entries[i].t = t}) <= 1          \* unique tags
        /\ \A x \in E : x.file /\ x.size                                                          \* blob of recorded size
        /\ {<<x.t, x.d>> : x \in {y \in E : y.t # ""}} = {<<t, tag'[r][t]>> : t \in DOMAIN tag'[r]}  \* tags = API tags
        /\ \A x \in E : (x.s = "" /\ x.d # "?") => x.d \in DOMAIN man'[r] /\ x.mt = man'[r][x.d]   \* nothing unknown
        \* every addressable manifest is listed, or a descendant of a listed index, or a referrer with a listed response
        /\ \A m \in ManSetP(r) : \/ m \in Desc(r, top)
                                 \/ (SubjectOf(m) # "" /\ \E x \in E : x.s = SubjectOf(m))
CDiskFiles(e) ==
  \A r \in DOMAIN e.obs : HasDisk(e, r) =>
     LET d == e.obs[r].disk IN
     /\ {f \in S(d.files) : f # "?"} = blob'[r]
     /\ d.uploads = Cardinality({h \in DOMAIN sess' : sess'[h].open /\ sess'[h].repo = r})

\* after a collection no index entry is left without backing content (directory store: read from index.json)
CGCIndex(e) ==
  \A r \in GCRepos(e) : (HasDisk(e, r) /\ e.obs[r].disk.index = "ok") => \A x \in S(e.obs[r].disk.entries) : x.file

\* C14: a read-only directory store and a memory store over a directory never touch the directory;
\* requests of a switched-off class are refused and change nothing that can be read
Frozen == Cfg.readOnly \/ env.store = "memdir"
CROFrozen(e) == (Frozen /\ e.rootsum # "") => e.rootsum = rsum
PushOps == {"UpPost", "UpPatch", "UpPut", "ManPut"}
Disabled(e) == \/ e.op.op \in PushOps /\ ~CanPush
               \/ e.op.op = "ManDel" /\ ~CanDelete
               \/ e.op.op = "BlobDel" /\ ~CanBlobDelete
CRORefused(e) == Disabled(e) => /\ e.resp.status \in 400..499
                                /\ ("none" \notin DOMAIN prevobs => e.obs = prevobs)
\* C16: nothing outside the root directory changes
CConfined(e) == e.outsum = osum

\* A request during which a file system call failed: whatever it answers, nothing that was held before is lost (except
\* what the request itself was to remove), nothing appears but what the request was to add, and what is there is served
\* intact (integrity) and described by the directory (disk.*) -- unprimed = the state before the request.
\* The harness repeats the request (phase "retry") and then restarts the server (phase "restart"): after the restart what
\* the faulted request may have left half done in memory may be there or not, and what the repeated request acknowledged
\* is in effect.
FAdds(op) == IF op.op \in {"UpPut", "UpPost"} /\ op.dig \in Digs THEN {op.dig}
             ELSE IF op.op = "ManPut" /\ IsManC(op.body) THEN {d \in Digs : CidOf(d) = op.body} ELSE {}
FRemB(op) == IF op.op = "BlobDel" THEN {op.dig} ELSE {}
FRemM(op) == IF op.op = "ManDel" /\ op.ref.k = "dig" THEN {op.ref.v} ELSE {}
FTag(op) == IF op.op \in {"ManPut", "ManDel"} /\ op.ref.k = "tag" THEN {op.ref.v} ELSE {}
FAcked(op, OB, OM, OT) ==
  CASE op.op = "ManPut" -> \E d \in FAdds(op) : d \in OM /\ (op.ref.k = "tag" => <<op.ref.v, d>> \in OT)
    [] op.op \in {"UpPut", "UpPost"} -> op.dig \in OB
    [] op.op = "ManDel" -> IF op.ref.k = "dig" THEN op.ref.v \notin OM ELSE ~\E x \in OT : x[1] = op.ref.v
    [] op.op = "BlobDel" -> op.dig \notin OB
    [] OTHER -> TRUE
CFaultSafe(e) ==
  IsFault(e) =>
    LET both == e.fault.phase = "restart"
        op == IF both THEN lastop ELSE e.op
        A == FAdds(op)
        AB == IF both THEN FAdds(op) \cup FRemB(op) ELSE FAdds(op)        \* may appear
        RB == IF both THEN FAdds(op) \cup FRemB(op) ELSE FRemB(op)        \* may be gone
        AM == IF both THEN FAdds(op) \cup FRemM(op) ELSE FAdds(op)
        RM == IF both THEN FAdds(op) \cup FRemM(op) \cup FRemB(op) ELSE FRemM(op) \cup FRemB(op)
    IN \A r \in DOMAIN e.obs :
     /\ (blob[r] \ RB) \subseteq ObsB(e, r)
     /\ ObsB(e, r) \subseteq blob[r] \cup AB
     /\ (ManSet(r) \ RM) \subseteq ObsM(e, r)
     /\ ObsM(e, r) \subseteq ManSet(r) \cup AM
     /\ \A t \in DOMAIN tag[r] : (tag[r][t] \in blob[r] \ RB /\ tag[r][t] \notin RM /\ t \notin FTag(op)) => <<t, tag[r][t]>> \in ObsT(e, r)
     /\ \A x \in ObsT(e, r) : (x[1] \in DOMAIN tag[r] /\ tag[r][x[1]] = x[2]) \/ (x[1] \in FTag(op) /\ (x[2] \in A \/ both)) \/ (both /\ x[2] \in RM)
     /\ (both /\ e.fault.acked /\ r = op.repo) => FAcked(op, ObsB(e, r), ObsM(e, r), ObsT(e, r))

\* DRIFT (reported, never a verdict): the collection of a directory store against GCImpl, the transcription of the collector
\* that MCGCImpl compares with the policy on every shape of a small universe.  The index view is what index.json held at the
\* previous event; whether a referrers response is recent is not observed, so both extremes are tried.
HasPrevDisk(r) == "none" \notin DOMAIN prevobs /\ r \in DOMAIN prevobs /\ "disk" \in DOMAIN prevobs[r] /\ prevobs[r].disk.index = "ok"
ViewOf(r, y) == LET E == S(prevobs[r].disk.entries) IN
                [top |-> {[d |-> x.d, t |-> x.t # ""] : x \in {z \in E : z.s = "" /\ z.d \in Digs}},
                 resp |-> {[s |-> x.s, y |-> y] : x \in {z \in E : z.s # ""}}]
CGCImpl(e) ==
  \A r \in GCRepos(e) : (env.store = "dir" /\ HasPrevDisk(r) /\ e.op.op # "Restart") =>
     \/ ObsB(e, r) = ImplKeptBlobs(r, ViewOf(r, FALSE))
     \/ ObsB(e, r) = ImplKeptBlobs(r, ViewOf(r, TRUE))

Clauses(e) ==
  { <<"resp", CResp(e)>>, <<"tagsresp", CTagsResp(e)>>, <<"integrity", CIntegrity(e)>>, <<"sync.blobs", CSyncBlobs(e)>>,
    <<"sync.mans", CSyncMans(e)>>, <<"sync.tags", CSyncTags(e)>>, <<"taglist", CTagList(e)>>,
    <<"refs", CRefs(e)>>, <<"refs.foreign", CRefsForeign(e)>>, <<"sess", CSess(e)>>, <<"sess.evict", CEvict(e)>>, <<"noerr", CNoErr(e)>>, <<"fault.safe", CFaultSafe(e)>>, <<"gc.impl", CGCImpl(e)>>,
    <<"gc.safe", CGCSafe(e)>>, <<"gc.exact", CGCExact(e)>>, <<"gc.idem", CGCIdem(e)>>, <<"gc.index", CGCIndex(e)>>,
    <<"disk.layout", CDiskLayout(e)>>, <<"disk.index", CDiskIndex(e)>>, <<"disk.files", CDiskFiles(e)>>,
    <<"ro.frozen", CROFrozen(e)>>, <<"ro.refused", CRORefused(e)>>, <<"confined", CConfined(e)>> }

\* which clauses a property enforces
Enforced ==
  [ C01 |-> {"integrity", "resp", "sync.blobs", "sync.mans", "noerr"},
    C02 |-> {"integrity", "resp", "sync.blobs", "sync.mans", "sync.tags", "gc.safe", "noerr"},
    C03 |-> {"resp", "tagsresp", "sync.mans", "sync.tags", "taglist", "noerr"},
    C04 |-> {"resp", "sync.blobs", "sync.mans", "sync.tags", "taglist", "refs", "noerr"},
    C07 |-> {"resp", "refs", "sync.mans", "noerr"},
    C08 |-> {"resp", "sess", "sess.evict", "sync.blobs", "disk.files", "noerr"},
    C05 |-> {"gc.safe", "integrity", "sync.blobs", "sync.mans", "sync.tags", "taglist", "noerr"},
    C10 |-> {"disk.layout", "disk.index", "disk.files", "sync.blobs", "sync.mans", "sync.tags", "taglist", "refs",
             "integrity", "gc.safe", "noerr", "gc.impl"},
    C14 |-> {"ro.frozen", "ro.refused", "resp", "sync.blobs", "sync.mans", "sync.tags", "taglist", "refs", "noerr"},
    C14F |-> {"ro.frozen", "ro.refused", "noerr"},      \* pre-existing foreign directories: content outside the catalogue
    C16 |-> {"confined", "resp", "sync.blobs", "sync.mans", "sync.tags", "taglist", "refs", "refs.foreign", "sess", "noerr"},
    C09 |-> {"resp", "sync.blobs", "sync.mans", "sync.tags", "noerr"},
    \* histories with one failing file system call (harness command `fault`), used by the checks of C02 and C08
    FAULT |-> {"fault.safe", "integrity", "resp", "sync.blobs", "sync.mans", "sync.tags", "taglist", "refs", "sess",
               "disk.layout", "disk.index", "disk.files", "noerr"},
    C06 |-> {"gc.exact", "gc.idem", "gc.safe", "gc.index", "sync.blobs", "sync.mans", "sync.tags", "taglist", "noerr", "gc.impl"} ]

Active == UNION {Enforced[p] : p \in Focus \cap DOMAIN Enforced}

\* diagnosis attached to a failure record: model vs observation, per observed repository
Detail(e) ==
  [r \in DOMAIN e.obs |->
     [blob_model_only |-> blob'[r] \ S(e.obs[r].blobs), blob_obs_only |-> S(e.obs[r].blobs) \ blob'[r],
      man_model_only |-> {x[1] : x \in ModelMans(r)} \ {x.d : x \in S(e.obs[r].mans)},
      man_obs_only |-> {x.d : x \in S(e.obs[r].mans)} \ {x[1] : x \in ModelMans(r)},
      tags_model |-> ModelTags(r),
      refs_wrong |-> {<<x.s, x.f>> : x \in {y \in S(e.obs[r].refs) :
                        S(y.list) # {d \in {z \in DOMAIN man'[r] : SubjectOf(z) = y.s} : y.f = "" \/ ATOf(d) = y.f}}},
      resp_model |-> resp']]

\* (for the three events around an injected fault only what the properties still say applies)
FaultClauses == {"fault.safe", "integrity", "noerr"}
Failed(e) == {c[1] : c \in {x \in Clauses(e) : ~x[2] /\ x[1] \in Active /\ (IsFault(e) => x[1] \in FaultClauses)}}

-----------------------------------------------------------------------------
\* A collection is nondeterministic in the model (MustBlobs <= kept <= MayBlobs): bind the next state to what was
\* observed; the clauses above judge the observation against the policy.
BindRepo(e, r) == r \in GCRepos(e)
GCBind(e) ==
  /\ blob' = [r \in Repos |-> IF BindRepo(e, r) THEN ObsB(e, r) \cap blob[r] ELSE blob[r]]
  /\ man' = [r \in Repos |-> IF BindRepo(e, r) THEN Restrict(man[r], DOMAIN man[r] \cap ObsM(e, r)) ELSE man[r]]
  /\ tag' = [r \in Repos |-> IF BindRepo(e, r)
                               THEN Restrict(tag[r], {t \in DOMAIN tag[r] : tag[r][t] \in ObsM(e, r)}) ELSE tag[r]]
  /\ young' = [r \in Repos |-> IF BindRepo(e, r) THEN young[r] \cap ObsB(e, r) ELSE young[r]]
  /\ sess' = IF e.op.op = "Restart" THEN [h \in DOMAIN sess |-> [sess[h] EXCEPT !.open = FALSE]] ELSE sess
  /\ resp' = Ok(0)
  /\ UNCHANGED <<env, nsess, base>> /\ ClockStep
IsCollection(e) == GCRepos(e) # {} /\ ~(e.op.op = "Restart" /\ GCNoop)
\* A request during which a file system call failed: the next state is what was observed (judged by fault.safe);
\* a session is open afterwards iff it was open before and is still observed open
ObsOpenSess(e) == UNION {{x.h : x \in {y \in S(e.obs[r].sess) : y.st = 204}} : r \in DOMAIN e.obs}
FaultBind(e) ==
  /\ blob' = [r \in Repos |-> IF r \in DOMAIN e.obs THEN ObsB(e, r) ELSE blob[r]]
  /\ man' = [r \in Repos |-> IF r \in DOMAIN e.obs THEN [d \in ObsM(e, r) |-> (CHOOSE x \in S(e.obs[r].mans) : x.d = d).mt] ELSE man[r]]
  /\ tag' = [r \in Repos |-> IF r \in DOMAIN e.obs
                               THEN [t \in {x.t : x \in S(e.obs[r].tags)} |-> (CHOOSE x \in S(e.obs[r].tags) : x.t = t).d] ELSE tag[r]]
  /\ young' = [r \in Repos |-> IF r \in DOMAIN e.obs THEN (young[r] \cap ObsB(e, r)) \cup (ObsB(e, r) \ blob[r]) ELSE young[r]]
  \* (a session handle handed out by this request keeps the numbering of the handles in step; no session survives the restart)
  /\ LET S0 == [h \in DOMAIN sess |-> IF sess[h].open /\ h \notin ObsOpenSess(e) THEN [sess[h] EXCEPT !.open = FALSE] ELSE sess[h]]
         new == e.resp.sess # "" /\ e.resp.sess \notin DOMAIN sess
     IN /\ sess' = IF new THEN Upd(S0, e.resp.sess, [NoSess EXCEPT !.open = (e.resp.sess \in ObsOpenSess(e)), !.repo = e.op.repo, !.used = clk.now]) ELSE S0
        /\ nsess' = IF new THEN nsess + 1 ELSE nsess
  /\ resp' = Ok(0)
  /\ UNCHANGED <<env, base>> /\ ClockStep
Step(e) == IF IsFault(e) THEN FaultBind(e) ELSE IF IsCollection(e) THEN GCBind(e) ELSE Do(e.op)

TraceInit ==
  /\ Trace[1].k = "reset"
  /\ env = EnvOf(Trace[1])
  /\ InitState
  /\ l = 2 /\ skip = FALSE /\ fails = <<>> /\ lastgc = ""
  /\ prevobs = [none |-> TRUE] /\ rsum = Trace[1].rootsum /\ osum = Trace[1].outsum
  /\ pre = [blob |-> blob, man |-> man, tag |-> tag] /\ lastop = [op |-> "none"]
  /\ stats = [events |-> 0, checked |-> 0, traces |-> 1]

TraceReset ==
  /\ l <= Len(Trace) /\ Trace[l].k = "reset"
  /\ LET en == EnvOf(Trace[l]) IN
     /\ env' = en
     /\ blob' = [r \in ReposOf(en) |-> {}]
     /\ man' = [r \in ReposOf(en) |-> <<>>]
     /\ tag' = [r \in ReposOf(en) |-> <<>>]
     /\ young' = [r \in ReposOf(en) |-> {}]
     /\ base' = [blob |-> [r \in ReposOf(en) |-> {}], man |-> [r \in ReposOf(en) |-> <<>>], tag |-> [r \in ReposOf(en) |-> <<>>]]
  /\ sess' = <<>> /\ nsess' = 0 /\ resp' = R0 /\ clk' = [now |-> 0, timer |-> [r \in ReposOf(EnvOf(Trace[l])) |-> -1]]
  /\ l' = l + 1 /\ skip' = FALSE /\ UNCHANGED fails /\ lastgc' = ""
  /\ prevobs' = [none |-> TRUE] /\ rsum' = Trace[l].rootsum /\ osum' = Trace[l].outsum
  /\ pre' = [blob |-> blob', man |-> man', tag |-> tag'] /\ lastop' = [op |-> "none"]
  /\ stats' = [stats EXCEPT !.traces = @ + 1]

TraceOp ==
  /\ l <= Len(Trace) /\ Trace[l].k = "op"
  /\ l' = l + 1
  /\ IF skip
     THEN UNCHANGED <<vars, pre, lastop, skip, fails, lastgc, prevobs, rsum, osum>> /\ stats' = [stats EXCEPT !.events = @ + 1]
     ELSE LET e == Trace[l] IN
          /\ Step(e)
          /\ lastgc' = IF e.op.op = "GC" THEN e.op.repo ELSE ""
          /\ prevobs' = e.obs /\ rsum' = e.rootsum /\ osum' = e.outsum
          /\ pre' = [blob |-> blob, man |-> man, tag |-> tag] /\ lastop' = e.op
          /\ LET f == Failed(e) IN
             /\ fails' = IF f = {} THEN fails
                         ELSE Append(fails, [trace |-> env.trace, i |-> e.i, line |-> l, op |-> e.op.op, clauses |-> f,
                                             detail |-> Detail(e)])
             /\ skip' = (f \ {"gc.impl"} # {})      \* (drift does not end the validation of a trace)
          /\ stats' = [stats EXCEPT !.events = @ + 1, !.checked = @ + 1]

\* C09: a crash image taken right before file system call n of the last operation, opened by a new server.
\* st is "pre" or "cur": the abstract state before / after the interrupted operation.
StBlob(st, r) == IF st = "pre" THEN pre.blob[r] ELSE blob[r]
StMan(st, r)  == IF st = "pre" THEN pre.man[r] ELSE man[r]
StTag(st, r)  == IF st = "pre" THEN pre.tag[r] ELSE tag[r]
\* what the recovered server must present for state st, given the blobs it holds
ViewMatches(o, st, r) ==
  LET B == S(o.blobs)
      Mn == StMan(st, r)
      Tg == StTag(st, r)
  IN /\ {<<x.d, x.mt>> : x \in S(o.mans)} = {<<d, Mn[d]>> : d \in {y \in DOMAIN Mn : y \in B}}
     /\ {<<x.t, x.d>> : x \in S(o.tags)} = {<<t, Tg[t]>> : t \in {y \in DOMAIN Tg : Tg[y] \in B}}
     /\ o.taglist = SortTags(DOMAIN Tg)
     /\ \A x \in S(o.refs) : x.st = 200 /\ S(x.list) = {d \in DOMAIN Mn : SubjectOf(d) = x.s} /\ Len(x.list) = Cardinality(S(x.list))
\* Named deviation (known finding artifact-two-saves): the push / delete of a manifest with a subject writes the
\* index twice (the manifest entry, then the referrers response), so a crash in between leaves the manifests and
\* tags of one state with the referrers lists of the other.
ViewSplit(o, stm, str, r) ==
  LET B == S(o.blobs)
      Mn == StMan(stm, r)
      Tg == StTag(stm, r)
      Rn == StMan(str, r)
  IN /\ {<<x.d, x.mt>> : x \in S(o.mans)} = {<<d, Mn[d]>> : d \in {y \in DOMAIN Mn : y \in B}}
     /\ {<<x.t, x.d>> : x \in S(o.tags)} = {<<t, Tg[t]>> : t \in {y \in DOMAIN Tg : Tg[y] \in B}}
     /\ o.taglist = SortTags(DOMAIN Tg)
     /\ \A x \in S(o.refs) : x.st = 200 /\ S(x.list) = {d \in DOMAIN Rn : SubjectOf(d) = x.s} /\ Len(x.list) = Cardinality(S(x.list))
ArtifactOp ==
  \/ lastop.op = "ManPut" /\ IsManC(lastop.body) /\ M(lastop.body).subject # ""
  \/ lastop.op = "ManDel" /\ lastop.ref.k = "dig" /\ SubjectOf(lastop.ref.v) # ""
DevArtifactTwoSaves(e) ==
  Cfg.referrers /\ ArtifactOp /\ \E stm, str \in {"pre", "cur"} : \A r \in DOMAIN e.obs : ViewSplit(e.obs[r], stm, str, r)

CrashClauses(e) ==
  { \* every repository loads, every blob file matches its name, everything served is intact
    <<"crash.intact", \A r \in DOMAIN e.obs : LET o == e.obs[r] IN
         /\ o.blobsbad = <<>> /\ o.mansbad = <<>> /\ o.tagsbad = <<>> /\ o.errs = <<>> /\ o.tagst \in {200, 404}
         /\ ("disk" \in DOMAIN o => o.disk.badfiles = <<>> /\ o.disk.index # "bad")>>,
    \* nothing acknowledged is lost: blobs held before and after the interrupted operation are there, nothing else appears
    <<"crash.blobs", \A r \in DOMAIN e.obs : LET B == S(e.obs[r].blobs) IN
         (pre.blob[r] \cap blob[r]) \subseteq B /\ B \subseteq (pre.blob[r] \cup blob[r])>>,
    \* the interrupted operation is absent or present as a whole: manifests, tags and referrers lists of all repositories
    \* are those of the state before it, or those of the state after it
    <<"crash.atomic", (\E st \in {"pre", "cur"} : \A r \in DOMAIN e.obs : ViewMatches(e.obs[r], st, r)) \/ DevArtifactTwoSaves(e)>>,
    \* the recovered repository is usable: a blob pushed to it after the crash is still served after another restart
    <<"crash.usable", ("cont" \in DOMAIN e /\ e.cont.post \in 200..299) => (e.cont.get = 200 /\ e.cont.ok)>>,
    \* (reported separately so that it can be listed as a known finding: it fails exactly when only the deviation explains the image)
    <<"crash.atomic.kf-artifact-two-saves", (\E st \in {"pre", "cur"} : \A r \in DOMAIN e.obs : ViewMatches(e.obs[r], st, r)) \/ ~DevArtifactTwoSaves(e)>> }
TraceCrash ==
  /\ l <= Len(Trace) /\ Trace[l].k = "crash"
  /\ l' = l + 1
  /\ UNCHANGED <<vars, pre, lastop, lastgc, prevobs, rsum, osum>>
  /\ IF skip THEN UNCHANGED <<skip, fails>> /\ stats' = [stats EXCEPT !.events = @ + 1]
     ELSE LET e == Trace[l]
              f == {c[1] : c \in {x \in CrashClauses(e) : ~x[2] /\ "C09" \in Focus}}
          IN /\ fails' = IF f = {} THEN fails
                         ELSE Append(fails, [trace |-> env.trace, i |-> e.during, line |-> l, op |-> "crash:" \o e.fsop \o ":" \o e.variant,
                                             clauses |-> f, detail |-> [n |-> e.n, paths |-> e.paths]])
             /\ skip' = FALSE          \* every image is judged on its own
             /\ stats' = [stats EXCEPT !.events = @ + 1, !.checked = @ + 1]

TraceNext == TraceReset \/ TraceOp \/ TraceCrash
TraceSpec == TraceInit /\ [][TraceNext]_tvars

\* acceptance: the whole file was consumed (one state per line) ...
Consumed == TLCGet("stats").diameter = Len(Trace)
\* ... and the verdict is printed once, from the last state
Report == l = Len(Trace) + 1 => PrintT(<<"VERDICT", ToJson([fails |-> fails, stats |-> stats])>>)
=============================================================================
