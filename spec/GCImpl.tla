------------------------------- MODULE GCImpl -------------------------------
(***************************************************************************)
(* The collector as it is written (internal/store/store.go,                *)
(* repoGarbageCollect), transcribed over an *index view* of a repository:  *)
(* the top level entries of index.json (digest, tagged or not), the        *)
(* referrers responses (subject, recent or not) and, from Registry, the    *)
(* blobs, their age and the catalogue (what every digest references).      *)
(* Registry only says what a collection must and may keep (MustBlobs,      *)
(* MayBlobs: C05 / C06); this module says what the code's algorithm keeps, *)
(* as a function of the view, so that TLC can compare the two on every     *)
(* shape of a small universe (MCGCImpl) -- the roles a digest plays, which *)
(* entries are top level and which are only reached through an index, what *)
(* is young, all sixteen policies -- instead of on the shapes that random  *)
(* histories happen to reach.                                              *)
(*                                                                         *)
(* The walk of the code is a work list; what it marks is the least fixed   *)
(* point computed below (the `walked` map makes the result independent of  *)
(* the order in which entries are popped).                                 *)
(***************************************************************************)
EXTENDS Registry

\* (sanity switch of MCGCImpl: without the second scan of the responses TLC must find a referrer that stays unlisted)
Rescan == TRUE

\* an index view: top = set of [d |-> digest, t |-> tagged?], resp = set of [s |-> subject digest, y |-> recent?]
TopDigs(IV)  == {e.d : e \in IV.top}
RespSubj(IV) == {x.s : x \in IV.resp}
RespOf(IV, s) == CHOOSE x \in IV.resp : x.s = s
\* what the referrers response of subject s lists: the manifests of the repository that name s
RList(r, s) == {d \in DOMAIN man[r] : SubjectOf(d) = s}

\* first loop: which entries start the walk (keep), which responses wait for their subject (subjects map)
KeepTop(r, e) == \/ ~Cfg.untagged
                 \/ e.t
                 \/ (Cfg.grace /\ e.d \in blob[r] /\ e.d \in young[r])
SubjExists(r, s) == s \in blob[r]
RespTracked(r, x) ==      \* entered into the subjects map: walked when (and only when) its subject is walked
  \/ (Cfg.withSubj /\ SubjExists(r, x.s))
  \/ (~(Cfg.withSubj /\ SubjExists(r, x.s)) /\ Cfg.dangling /\ SubjExists(r, x.s) /\ ~(Cfg.grace /\ x.y))
KeepResp(r, x) ==
  IF Cfg.withSubj /\ SubjExists(r, x.s) THEN Cfg.grace /\ x.y
  ELSE IF ~Cfg.dangling THEN TRUE
  ELSE IF SubjExists(r, x.s) THEN Cfg.grace /\ x.y
  ELSE ~Cfg.untagged \/ (Cfg.grace /\ x.y)          \* (the general rule for an entry without a tag)

\* one round of the walk: W = manifests walked (their blob could be read), WR = subjects whose response was walked
KidsOf(d) == IF IsMan(d) /\ M(CidOf(d)).kind = "index" THEN Range(M(CidOf(d)).children) ELSE {}
WStep(r, IV, W, WR) ==
  LET popped == UNION {KidsOf(d) : d \in W} \cup UNION {RList(r, s) : s \in WR}
  IN W \cup (popped \cap blob[r])
WRStep(r, IV, W, WR) ==
  WR \cup {x.s : x \in {y \in IV.resp : RespTracked(r, y) /\ y.s \in W}}
     \* a response that is not retained through its subject is still needed while a referrer it lists is walked
     \cup (IF Rescan THEN {x.s : x \in {y \in IV.resp : RList(r, y.s) \cap W # {}}} ELSE {})
RECURSIVE WalkFix(_, _, _, _)
WalkFix(r, IV, W, WR) ==
  LET W2 == WStep(r, IV, W, WR)
      WR2 == WRStep(r, IV, W2, WR)
  IN IF W2 = W /\ WR2 = WR THEN [w |-> W, wr |-> WR] ELSE WalkFix(r, IV, W2, WR2)
Walk(r, IV) ==
  WalkFix(r, IV, {e.d : e \in {x \in IV.top : KeepTop(r, x)}} \cap blob[r], {x.s : x \in {y \in IV.resp : KeepResp(r, y)}})

\* digests the sweep knows as index entries: top level entries and every descriptor the walk popped
InIndex(r, IV, F) == TopDigs(IV) \cup UNION {KidsOf(d) : d \in F.w} \cup UNION {RList(r, s) : s \in F.wr}
Seen(r, IV, F) == F.w \cup UNION {({M(CidOf(d)).cfg} \cup Range(M(CidOf(d)).layers)) : d \in {x \in F.w : IsMan(x) /\ M(CidOf(x)).kind = "image"}}

\* the blobs (of the catalogue) one collection keeps, and the responses it keeps
ImplKeptBlobs(r, IV) ==
  LET F == Walk(r, IV) IN
  {d \in blob[r] : \/ d \in Seen(r, IV, F)
                   \/ (Cfg.grace /\ d \in young[r] /\ d \notin InIndex(r, IV, F))}
ImplKeptResp(r, IV) == Walk(r, IV).wr \cap RespSubj(IV)
\* the manifests that stay addressable: top level entries and children reached, whose blob stays
ImplKeptMans(r, IV) ==
  LET K == ImplKeptBlobs(r, IV) IN {d \in DOMAIN man[r] : d \in K}

\* C05 / C06 for the algorithm: nothing that must stay is removed; once nothing is young exactly the garbage is gone
ImplSafe(r, IV)  == MustBlobs(r) \subseteq ImplKeptBlobs(r, IV) /\ MustAddr(r) \subseteq ImplKeptMans(r, IV)
ImplExact(r, IV) == Young(r) = {} => ImplKeptBlobs(r, IV) \subseteq MayBlobs(r)
\* C07 for the algorithm: a referrer that stays is still listed (its response stays)
ImplListed(r, IV) == \A a \in ImplKeptMans(r, IV) : (IsArt(a) /\ SubjectOf(a) \in RespSubj(IV)) => SubjectOf(a) \in ImplKeptResp(r, IV)
=============================================================================
