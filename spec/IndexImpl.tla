---------------------------- MODULE IndexImpl ----------------------------
(* Statement-level transcription of types/manifest.go: AddDesc, RmDesc,    *)
(* AddChildren, GetDesc, GetByAnnotation.  Sequences are 1-based; the Go    *)
(* loops are recursive operators that visit the same indexes in the same    *)
(* order and perform the same swap-removes.  None stands for "" / absent.   *)
EXTENDS Naturals, Sequences, FiniteSets, TLC

CONSTANTS Digs, Tags, Subjs, None,
          WithBoth,      \* allow tag and subject on one AddDesc call
          MaxChildOpt    \* longest children option (0, 1 or 2)

VARIABLES M,      \* Index.Manifests      : Seq([dig, tag, subj, nil])
          C,      \* Index.childManifests : Seq(Digs)
          panic,  \* an index-out-of-range would have occurred in Go
          last    \* last operation (output only, hidden by VIEW)

vars == <<M, C, panic, last>>

\* nil: Annotations == nil (as opposed to an empty, non-nil map left by delete())
Entry(d, t, s) == [dig |-> d, tag |-> t, subj |-> s, nil |-> (t = None /\ s = None)]

\* an entry that carries neither a tag nor a referrers subject (nil map, or a map emptied by delete())
Blank(e) == e.tag = None /\ e.subj = None

\* Go: x[i] = x[len(x)-1]; x = x[:len(x)-1]
SwapRemove(s, i) == IF i = Len(s) THEN SubSeq(s, 1, Len(s) - 1)
                    ELSE [SubSeq(s, 1, Len(s) - 1) EXCEPT ![i] = s[Len(s)]]

----------------------------------------------------------------------------
\* RmDesc (manifest.go:251-294); dig = None means the descriptor has no digest
RECURSIVE RmChildLoop(_, _, _)
RmChildLoop(c, i, dig) ==
  IF i < 1 THEN c
  ELSE IF c[i] = dig THEN RmChildLoop(SwapRemove(c, i), i - 1, dig)
       ELSE RmChildLoop(c, i - 1, dig)

RECURSIVE RmLoop(_, _, _, _, _, _)
RmLoop(m, i, dig, tag, subj, found) ==
  IF i < 1 THEN m
  ELSE
    LET e == m[i] IN
    IF dig # None /\ e.dig = dig THEN
       IF tag # None THEN
          IF found /\ (Blank(e) \/ e.tag = tag)
            THEN RmLoop(SwapRemove(m, i), i - 1, dig, tag, subj, TRUE)
          ELSE IF ~e.nil /\ e.tag = tag
            THEN RmLoop([m EXCEPT ![i].tag = None], i - 1, dig, tag, subj, TRUE)  \* delete(): map stays non-nil
          ELSE RmLoop(m, i - 1, dig, tag, subj, TRUE)
       ELSE RmLoop(SwapRemove(m, i), i - 1, dig, tag, subj, found)
    ELSE IF dig = None /\ ~e.nil /\ ((tag # None /\ e.tag = tag) \/ (subj # None /\ e.subj = subj))
       THEN RmLoop(SwapRemove(m, i), i - 1, dig, tag, subj, found)
    ELSE RmLoop(m, i - 1, dig, tag, subj, found)

RmDescM(m, dig, tag, subj) == RmLoop(m, Len(m), dig, tag, subj, FALSE)
RmDescC(c, dig, tag)       == IF tag = None /\ dig # None THEN RmChildLoop(c, Len(c), dig) ELSE c

----------------------------------------------------------------------------
\* AddDesc (manifest.go:171-245)
\* first loop: untag other digests / drop the previous referrers response
RECURSIVE UntagLoop(_, _, _, _, _)
UntagLoop(m, j, dig, tag, subj) ==
  IF j < 1 THEN [m |-> m, panic |-> FALSE]
  ELSE IF j > Len(m) THEN [m |-> m, panic |-> TRUE]
  ELSE
    LET e == m[j] IN
    IF e.dig # dig /\ ~e.nil THEN
       IF tag # None /\ e.tag = tag THEN
          LET m2 == RmDescM(m, e.dig, tag, None)
              jn == IF (j - 1) > Len(m2) THEN Len(m2) ELSE j - 1   \* if mi > len { mi = len }; mi--
          IN UntagLoop(m2, jn, dig, tag, subj)
       ELSE IF subj # None /\ e.subj = subj THEN
          UntagLoop(SwapRemove(m, j), j - 1, dig, tag, subj)
       ELSE UntagLoop(m, j - 1, dig, tag, subj)
    ELSE UntagLoop(m, j - 1, dig, tag, subj)

\* remove the first matching child (forward loop with break)
RECURSIVE RmFirstChild(_, _, _)
RmFirstChild(c, i, dig) ==
  IF i > Len(c) THEN c
  ELSE IF c[i] = dig THEN SwapRemove(c, i) ELSE RmFirstChild(c, i + 1, dig)

\* children option: move the first annotation-less top-level entry of each child digest
RECURSIVE FirstPlain(_, _, _)
FirstPlain(m, i, dig) ==
  IF i > Len(m) THEN 0
  ELSE IF m[i].dig = dig /\ m[i].tag = None /\ m[i].subj = None THEN i   \* len(Annotations) == 0
       ELSE FirstPlain(m, i + 1, dig)

RECURSIVE MoveChildren(_, _, _)
MoveChildren(m, c, cds) ==
  IF cds = <<>> THEN [m |-> m, c |-> c]
  ELSE LET i == FirstPlain(m, 1, Head(cds)) IN
       IF i = 0 THEN MoveChildren(m, c, Tail(cds))
       ELSE MoveChildren(SwapRemove(m, i), Append(c, Head(cds)), Tail(cds))

\* final search: unchanged / replace the entry with the same tag and subject / replace a blank entry / append
MinIdx(S) == IF S = {} THEN 0 ELSE CHOOSE i \in S : \A j \in S : i <= j
FirstIdx(m, dig, P(_)) == MinIdx({k \in 1..Len(m) : m[k].dig = dig /\ P(m[k])})

Place(m, d) ==
  IF d.tag = None /\ d.subj = None
  THEN IF FirstIdx(m, d.dig, LAMBDA e : TRUE) # 0 THEN m ELSE Append(m, d)
  ELSE LET ex == FirstIdx(m, d.dig, LAMBDA e : e.tag = d.tag /\ e.subj = d.subj)
           bl == FirstIdx(m, d.dig, Blank)
       IN IF ex # 0 THEN [m EXCEPT ![ex] = d]
          ELSE IF bl # 0 THEN [m EXCEPT ![bl] = d]
          ELSE Append(m, d)

AddDescRes(m, c, d, cds) ==
  LET r1 == IF d.tag # None \/ d.subj # None
              THEN UntagLoop(m, Len(m), d.dig, d.tag, d.subj)
              ELSE [m |-> m, panic |-> FALSE]
      c1 == RmFirstChild(c, 1, d.dig)
      r2 == MoveChildren(r1.m, c1, cds)
  IN [m |-> Place(r2.m, d), c |-> r2.c, panic |-> r1.panic]

----------------------------------------------------------------------------
\* lookups (GetDesc, GetByAnnotation)
GetByTag(m, t)  == LET i == MinIdx({k \in 1..Len(m) : ~m[k].nil /\ m[k].tag = t}) IN IF i = 0 THEN None ELSE m[i].dig
GetBySubj(m, s) == LET i == MinIdx({k \in 1..Len(m) : ~m[k].nil /\ m[k].subj = s}) IN IF i = 0 THEN None ELSE m[i].dig
GetByDig(m, c, d) == (\E i \in 1..Len(m) : m[i].dig = d) \/ (\E i \in 1..Len(c) : c[i] = d)

----------------------------------------------------------------------------
ChildSeqs(d) == {<<>>}
                \cup (IF MaxChildOpt >= 1 THEN {<<a>> : a \in Digs \ {d}} ELSE {})
                \cup (IF MaxChildOpt >= 2 THEN {<<a, b>> : a, b \in Digs \ {d}} ELSE {})   \* never its own child

AddArgs == {<<d, t, s>> \in Digs \X (Tags \cup {None}) \X (Subjs \cup {None}) :
               WithBoth \/ t = None \/ s = None}

Init == M = <<>> /\ C = <<>> /\ panic = FALSE /\ last = [op |-> "init"]

AddDesc(d, t, s, cds) ==
  LET r == AddDescRes(M, C, Entry(d, t, s), cds) IN
  /\ M' = r.m /\ C' = r.c /\ panic' = (panic \/ r.panic)
  /\ last' = [op |-> "AddDesc", dig |-> d, tag |-> t, subj |-> s, children |-> cds]

RmDesc(d, t, s) ==
  /\ M' = RmDescM(M, d, t, s) /\ C' = RmDescC(C, d, t) /\ UNCHANGED panic
  /\ last' = [op |-> "RmDesc", dig |-> d, tag |-> t, subj |-> s]

AddChildren(cds) ==               \* the stores only add children not seen before
  /\ MaxChildOpt >= 1 /\ cds # <<>> /\ \A i \in 1..Len(cds) : ~GetByDig(M, C, cds[i])
  /\ Len(C) < Cardinality(Digs)
  /\ C' = C \o cds /\ UNCHANGED <<M, panic>>
  /\ last' = [op |-> "AddChildren", children |-> cds]

Next ==
  \/ \E a \in AddArgs : \E cds \in ChildSeqs(a[1]) : AddDesc(a[1], a[2], a[3], cds)
  \/ \E d \in Digs : RmDesc(d, None, None)
  \/ \E d \in Digs, t \in Tags : RmDesc(d, t, None)
  \/ \E t \in Tags : RmDesc(None, t, None)
  \/ \E s \in Subjs : RmDesc(None, None, s)
  \/ \E a \in Digs : AddChildren(<<a>>)

Spec == Init /\ [][Next]_vars
View == <<M, C, panic>>

----------------------------------------------------------------------------
\* C18 on the implementation-shaped state
Count(P(_)) == Cardinality({i \in 1..Len(M) : P(M[i])})
NoPanic        == ~panic
TagUnique      == \A t \in Tags  : Count(LAMBDA e : e.tag = t) <= 1
SubjUnique     == \A s \in Subjs : Count(LAMBDA e : e.subj = s) <= 1
UntaggedOnce   == \A d \in Digs  : Count(LAMBDA e : e.dig = d /\ e.tag = None /\ e.subj = None) <= 1
LookupByDigest == \A d \in Digs : GetByDig(M, C, d) <=>
                     ((\E i \in 1..Len(M) : M[i].dig = d) \/ (\E i \in 1..Len(C) : C[i] = d))
LastWriterWins == [][(last'.op = "AddDesc" /\ last'.tag # None) => GetByTag(M', last'.tag) = last'.dig]_vars
RmTagKeepsDigest == [][(last'.op = "RmDesc" /\ last'.dig # None /\ last'.tag # None /\ GetByDig(M, C, last'.dig))
                          => GetByDig(M', C', last'.dig)]_vars
RmDigestRemovesAll == [][(last'.op = "RmDesc" /\ last'.dig # None /\ last'.tag = None)
                          => (~\E i \in 1..Len(M') : M'[i].dig = last'.dig) /\ (~\E i \in 1..Len(C') : C'[i] = last'.dig)]_vars
=============================================================================
