----------------------------- MODULE TraceConfig -----------------------------
(* Validates logged answers of the library (olareg.New) and of the binary (olareg serve --flags) against Config. *)
EXTENDS Config, Json
VARIABLES l, fails, stats
Trace == ndJsonDeserialize("trace.ndjson")
Tr(s) == s
ComboOf(j) == [push |-> Tr(j.push), delete |-> Tr(j.delete), blobDelete |-> Tr(j.blobDelete), referrers |-> Tr(j.referrers),
               readOnly |-> Tr(j.readOnly), store |-> j.store, warnings |-> j.warnings, rateLimit |-> j.rateLimit]
TraceInit == l = 1 /\ fails = <<>> /\ stats = [events |-> 0, checked |-> 0]
TraceNext ==
  /\ l <= Len(Trace) /\ l' = l + 1
  /\ LET e == Trace[l]
         ok == IF e.k = "req" THEN Fits(ComboOf(e.combo), e.class, e.resp)
               ELSE e.ok        \* "defaults", "persist", "ratelimit", "sigterm" records carry the measured verdict of a named rule
     IN /\ fails' = IF ok \/ Len(fails) >= 100 THEN fails ELSE Append(fails, e)
        /\ stats' = [events |-> stats.events + 1, checked |-> stats.checked + 1]
TraceSpec == TraceInit /\ [][TraceNext]_<<l, fails, stats>>
Consumed == TLCGet("stats").diameter = Len(Trace) + 1
Report == l = Len(Trace) + 1 => PrintT(<<"VERDICT", ToJson([fails |-> fails, stats |-> stats])>>)
=============================================================================
