----------------------------- MODULE TraceCache -----------------------------
(***************************************************************************)
(* C20: validates traces recorded from the real cache (in-package driver   *)
(* with a virtual clock) against Cache.  Each event carries the operation, *)
(* the keys present afterwards, the cleanup calls made during it (key and  *)
(* whether it succeeded), whether the age timer is armed and how many      *)
(* spawned prunes are waiting.  The model state is advanced by the same    *)
(* rules as Cache (ties of the count prune are resolved by what was        *)
(* observed) and the clauses are the statements of C20.                    *)
(***************************************************************************)
EXTENDS Integers, Sequences, FiniteSets, TLC, Json

VARIABLES used, now, due, cfg, l, skip, fails, stats
tvars == <<used, now, due, cfg, l, skip, fails, stats>>
Trace == ndJsonDeserialize("trace.ndjson")
S(q) == {q[i] : i \in DOMAIN q}
Present == DOMAIN used
Restrict(f, X) == [k \in X |-> f[k]]
MinOf(X) == CHOOSE x \in X : \A y \in X : x <= y

Age == cfg.age
Count == cfg.count
FailKeys == S(cfg.fail)
MaxAge == Age + (Age \div 10)
MinCount == (9 * Count) \div 10
MinCountEff == IF Count > 0 /\ MinCount < 1 THEN 1 ELSE MinCount

\* expected next `used` for the deterministic operations
\* (a TimerFire / PruneCount event for which the real clock had no due timer / the real queue no spawned prune is a
\*  no-op: the generator's model resolves ties differently from the implementation, so its schedule can drift)
NextUsed(e) ==
  LET k == e.op.key IN
  CASE ~e.fired -> used
    [] e.op.op = "Set" -> [x \in Present \cup {k} |-> IF x = k THEN now ELSE used[x]]
    [] e.op.op = "Get" -> IF k \in Present THEN [used EXCEPT ![k] = now] ELSE used
    [] e.op.op = "Delete" -> IF k \in FailKeys THEN used ELSE Restrict(used, Present \ {k})
    [] e.op.op = "DeleteAll" -> Restrict(used, Present \cap FailKeys)
    [] e.op.op = "TimerFire" ->
         IF Age <= 0 THEN used
         ELSE LET expired == {x \in Present : used[x] < now - Age}
                  after == [x \in Present \ (expired \ FailKeys) |-> IF x \in expired THEN now ELSE used[x]]
                  \* probe: while the cleanup of key e.reset ran, another goroutine called Set for that key; the prune holds the
                  \* cache for its whole run, so the Set takes effect after it: the key is there again (never dropped without cleanup)
                  rk == IF "reset" \in DOMAIN e THEN e.reset ELSE ""
              IN IF rk = "" THEN after ELSE [x \in DOMAIN after \cup {rk} |-> IF x = rk THEN now ELSE after[x]]
    [] e.op.op = "PruneCount" ->
         \* bound to the observation: the keys that are gone are gone, failing candidates were refreshed
         LET gone == Present \ S(e.members)
             tried == {c.k : c \in S(e.calls)}
         IN [x \in Present \ gone |-> IF x \in tried /\ x \in FailKeys THEN now ELSE used[x]]
    [] OTHER -> used

Removed(e) == Present \ S(e.members)
OkCalls(e) == {c.k : c \in {x \in S(e.calls) : x.ok}}
BadCalls(e) == {c.k : c \in {x \in S(e.calls) : ~x.ok}}

Clauses(e) ==
  LET nu == NextUsed(e)
      rem == Removed(e)
  IN
  { <<"members", S(e.members) = DOMAIN nu>>,
    \* never removed without a successful cleanup; an entry whose cleanup failed is kept
    <<"cleanup", rem \subseteq OkCalls(e)>>,
    <<"failedkept", BadCalls(e) \subseteq S(e.members)>>,
    <<"callbacks", \A c \in S(e.calls) : c.ok <=> c.k \notin FailKeys>>,
    \* the age timer never removes an entry used within Age
    <<"noearly", (e.op.op = "TimerFire" /\ e.fired) => \A k \in rem : now - used[k] > Age>>,
    \* count pruning: least recently used first, exactly down to the lower mark, nothing when within it
    <<"lru", (e.op.op = "PruneCount" /\ e.fired) => \A k \in rem, j \in S(e.members) \ FailKeys : j \in Present => used[k] <= used[j]>>,
    <<"limit", (e.op.op = "PruneCount" /\ e.fired /\ FailKeys = {} /\ Count > 0 /\ e.pending = 0) => Cardinality(S(e.members)) <= Count>>,
    <<"prunemark", (e.op.op = "PruneCount" /\ e.fired) =>
         IF MinCountEff <= 0 \/ Cardinality(Present) <= MinCountEff THEN rem = {}
         ELSE (FailKeys = {} => Cardinality(S(e.members)) = MinCountEff)>>,
    \* only pruning operations and deletes remove anything
    <<"nospurious", (e.op.op \in {"Set", "Get", "Tick"} \/ ~e.fired) => rem = {} /\ e.calls = <<>>>>,
    \* a spawned prune is waiting whenever an insertion took the cache over its limit
    <<"spawned", (e.op.op = "Set" /\ Count > 0 /\ Cardinality(S(e.members)) > Count) => e.pending > 0>>,
    \* the age timer is armed exactly while the cache holds entries (and ages are enabled)
    <<"timer", e.timer <=> (MaxAge > 0 /\ S(e.members) # {})>> }

Failed(e) == {c[1] : c \in {x \in Clauses(e) : ~x[2]}}

TraceInit == /\ used = << >> /\ now = 0 /\ due = -1 /\ cfg = [age |-> 0, count |-> 0, fail |-> <<>>, step |-> 1]
             /\ l = 1 /\ skip = FALSE /\ fails = <<>> /\ stats = [events |-> 0, checked |-> 0, traces |-> 0, pruned |-> 0]
TraceNext ==
  /\ l <= Len(Trace) /\ l' = l + 1
  /\ LET e == Trace[l] IN
     IF e.k = "reset"
     THEN /\ used' = << >> /\ now' = 0 /\ due' = -1 /\ cfg' = e.cfg /\ skip' = FALSE /\ UNCHANGED fails
          /\ stats' = [stats EXCEPT !.traces = @ + 1]
     ELSE IF skip THEN UNCHANGED <<used, now, due, cfg, skip, fails>> /\ stats' = [stats EXCEPT !.events = @ + 1]
     ELSE LET f == Failed(e) IN
          /\ used' = NextUsed(e)
          /\ now' = IF e.op.op = "Tick" THEN now + cfg.step ELSE now
          /\ UNCHANGED <<due, cfg>>
          /\ fails' = IF f = {} THEN fails ELSE Append(fails, [trace |-> e.trace, i |-> e.i, op |-> e.op, clauses |-> f, members |-> e.members, calls |-> e.calls])
          /\ skip' = (f # {})
          /\ stats' = [stats EXCEPT !.events = @ + 1, !.checked = @ + 1, !.pruned = @ + Cardinality(Removed(e))]
TraceSpec == TraceInit /\ [][TraceNext]_tvars
Consumed == TLCGet("stats").diameter = Len(Trace) + 1
Report == l = Len(Trace) + 1 => PrintT(<<"VERDICT", ToJson([fails |-> fails, stats |-> stats])>>)
=============================================================================
