------------------------------ MODULE TraceLin ------------------------------
(***************************************************************************)
(* C11: linearizability of concurrent episodes recorded from the real      *)
(* server, decided against Registry.                                       *)
(*                                                                         *)
(* A trace is: reset, sequential "op" lines (the setup, validated as in    *)
(* TraceRegistry), then one "conc" line: the requests that ran             *)
(* concurrently, each with its response and the logical times of its       *)
(* invocation and return (a counter the harness's scheduler advances), and *)
(* the state observed through the API after all of them returned.          *)
(* ConcStep linearizes one more request: any request all of whose real     *)
(* time predecessors are linearized; the model executes it (Do) and its    *)
(* response must be the model's.  TLC explores every admissible order.     *)
(* ConcFinish compares the model state with the final observation.  The    *)
(* episode is accepted iff some order passes both; accepted episodes are   *)
(* collected in TLC register 1 (-workers 1) and printed at the end.        *)
(***************************************************************************)
EXTENDS TraceRegistry

VARIABLES lin,    \* indexes of the concurrent requests already linearized
          bad     \* this order already disagreed with a response
lvars == <<tvars, lin, bad>>

Before(e, j, k) == e.ops[j].ret < e.ops[k].inv
CanLin(e, k) == k \notin lin /\ \A j \in DOMAIN e.ops : (j # k /\ Before(e, j, k)) => j \in lin

\* the response of one concurrent request against the model step state --Do(x.op)--> state'
OpOK(x) ==
  /\ ~x.resp.panic /\ ~x.resp.hung /\ x.resp.status < 500
  /\ IF x.op.op = "Referrers"
     THEN LET E == Referrers(x.op.repo, x.op.subject) IN
          x.resp.status = 200 /\ S(x.resp.list) = E /\ Len(x.resp.list) = Cardinality(E)
     ELSE \/ CResp(x) /\ CTagsResp(x)
          \* reading (see Handlers.tla): a delete acknowledged although a concurrent delete had just removed its target
          \/ (x.op.op \in {"ManDel", "BlobDel"} /\ x.resp.status = 202 /\ resp'.class = "refused")

ConcStep ==
  /\ l <= Len(Trace) /\ Trace[l].k = "conc" /\ ~Trace[l].integ
  /\ \E k \in DOMAIN Trace[l].ops :
        /\ CanLin(Trace[l], k)
        /\ Do(Trace[l].ops[k].op)
        /\ lin' = lin \cup {k}
        /\ bad' = (bad \/ ~OpOK(Trace[l].ops[k]))
  /\ UNCHANGED <<pre, lastop, prevobs, rsum, osum, lastgc, l, skip, fails, stats>>

FinalOK(e) == CSyncBlobs(e) /\ CSyncMans(e) /\ CSyncTags(e) /\ CTagList(e) /\ CRefs(e) /\ (\A r \in DOMAIN e.obs : e.obs[r].errs = <<>>)

ConcFinish ==
  /\ l <= Len(Trace) /\ Trace[l].k = "conc" /\ ~Trace[l].integ /\ lin = DOMAIN Trace[l].ops
  /\ UNCHANGED vars
  /\ IF ~bad /\ ~skip /\ FinalOK(Trace[l]) THEN TLCSet(1, TLCGet(1) \cup {Trace[l].id}) ELSE TRUE
  /\ l' = l + 1 /\ lin' = {} /\ bad' = FALSE
  /\ stats' = [stats EXCEPT !.events = @ + 1, !.checked = @ + 1]
  /\ UNCHANGED <<pre, lastop, prevobs, rsum, osum, lastgc, skip, fails>>

\* C01 under concurrency: requests on ONE upload session (chunks racing with the closing PUT, status, cancellation).  The
\* order in which the session sees them is not pinned by any property, so no linearization is searched; whatever the
\* interleaving, nothing the registry serves afterwards may fail to hash to the digest it is served under, no
\* request may panic or hang, and a closing PUT that was acknowledged with 201 has made its digest retrievable (C02:
\* the episodes delete no blobs).
AckServed(e) == \A k \in DOMAIN e.ops : (e.ops[k].op.op = "UpPut" /\ e.ops[k].resp.status = 201) =>
                   e.ops[k].op.dig \in S(e.obs[e.ops[k].op.repo].blobs)
ConcInteg ==
  /\ l <= Len(Trace) /\ Trace[l].k = "conc" /\ Trace[l].integ
  /\ UNCHANGED vars
  /\ IF /\ ~skip /\ CIntegrity(Trace[l]) /\ AckServed(Trace[l])
        /\ \A k \in DOMAIN Trace[l].ops : ~Trace[l].ops[k].resp.panic /\ ~Trace[l].ops[k].resp.hung
        /\ \A r \in DOMAIN Trace[l].obs : Trace[l].obs[r].errs = <<>>
     THEN TLCSet(1, TLCGet(1) \cup {Trace[l].id}) ELSE TRUE
  /\ l' = l + 1
  /\ stats' = [stats EXCEPT !.events = @ + 1, !.checked = @ + 1]
  /\ UNCHANGED <<pre, lastop, prevobs, rsum, osum, lastgc, skip, fails, lin, bad>>

LinInit == TraceInit /\ lin = {} /\ bad = FALSE /\ TLCSet(1, {})
LinNext == \/ ((TraceReset \/ TraceOp) /\ UNCHANGED <<lin, bad>>)
           \/ ConcStep \/ ConcFinish \/ ConcInteg
LinSpec == LinInit /\ [][LinNext]_lvars
\* the last line of the file is a closing reset, so that every order of the last episode is finished (breadth first) before this fires
LinReport == l = Len(Trace) + 1 => PrintT(<<"VERDICT", ToJson([fails |-> fails, stats |-> stats, accepted |-> TLCGet(1)])>>)
=============================================================================
