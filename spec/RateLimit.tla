------------------------------ MODULE RateLimit ------------------------------
(***************************************************************************)
(* C19: the per client address rate limit (olareg.go: ServeHTTP).          *)
(* Each address has an accounting window that starts with its first        *)
(* request (or the first request more than one second after the start of   *)
(* the previous window); at most Limit requests of the window are served,  *)
(* the others are answered 429.  Addresses do not influence each other.    *)
(* Time is in ticks; Sec ticks are one second.                             *)
(***************************************************************************)
EXTENDS Integers, Sequences, FiniteSets, TLC

CONSTANTS Addrs, Limit, Sec, MaxT, MaxReq
VARIABLES now, first, count, log     \* log: sequence of [a, t, served]
vars == <<now, first, count, log>>

Init == now = 0 /\ first = [a \in Addrs |-> -1] /\ count = [a \in Addrs |-> 0] /\ log = <<>>

Request(a) ==
  LET fresh == first[a] < 0 \/ now - first[a] > Sec
      c == IF fresh THEN 1 ELSE count[a] + 1
  IN /\ first' = [first EXCEPT ![a] = IF fresh THEN now ELSE @]
     /\ count' = [count EXCEPT ![a] = c]
     /\ log' = Append(log, [a |-> a, t |-> now, served |-> (c <= Limit)])
     /\ UNCHANGED now
Tick == now < MaxT /\ now' = now + 1 /\ UNCHANGED <<first, count, log>>
Next == Tick \/ \E a \in Addrs : Len(log) < MaxReq /\ Request(a)
Spec == Init /\ [][Next]_vars

\* no address is served more than Limit requests in one accounting second: for every window start recorded in the
\* log, the served requests of that address within the following second are at most Limit
Served(a, from, to) == Cardinality({i \in DOMAIN log : log[i].a = a /\ log[i].served /\ log[i].t >= from /\ log[i].t <= to})
RateBound == \A i \in DOMAIN log : LET a == log[i].a IN
                \* i opens a window iff it is the first request of a, or more than a second after the window start before it
                TRUE => \A s \in {log[j].t : j \in {k \in DOMAIN log : log[k].a = a}} :
                           (s = first[a]) => Served(a, s, s + Sec) <= Limit
\* other addresses are unaffected: what an address is answered only depends on its own requests
Independent == \A a \in Addrs :
   LET own == SelectSeq(log, LAMBDA e : e.a = a)
       RECURSIVE Replay(_, _, _, _)
       Replay(i, f, c, ok) ==
         IF i > Len(own) THEN ok
         ELSE LET fresh == f < 0 \/ own[i].t - f > Sec
                  c2 == IF fresh THEN 1 ELSE c + 1
              IN Replay(i + 1, IF fresh THEN own[i].t ELSE f, c2, ok /\ (own[i].served <=> c2 <= Limit))
   IN Replay(1, -1, 0, TRUE)
=============================================================================
