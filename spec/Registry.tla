------------------------------ MODULE Registry ------------------------------
(***************************************************************************)
(* L0: the property-level reference model of an olareg server.             *)
(*                                                                         *)
(* One action per request class of the OCI distribution API as olareg      *)
(* routes it (olareg.go: ServeHTTP) plus the environment actions (garbage  *)
(* collection, restart).  Every action is TOTAL: it is enabled for every   *)
(* argument and predicts the response class and the next abstract state,   *)
(* so it can be used three ways without change:                            *)
(*   - exhaustively (MCRegistry.tla): invariants and action properties,    *)
(*   - as a generator (tlc -simulate): behaviours become request programs  *)
(*     that the harness replays against the real server,                   *)
(*   - as the oracle of trace validation (TraceRegistry.tla): each logged  *)
(*     request of a real execution is applied to the model and the logged  *)
(*     response and observed state are compared with the prediction.       *)
(*                                                                         *)
(* The model digest of content c under algorithm a is the string "a:c":    *)
(* an injective hash.  The catalogue (env.cat) says what every content id  *)
(* is: plain blob, image (config, layers), index (children), artifact      *)
(* (subject, artifactType).  It is produced by the harness together with   *)
(* the real bytes (harness/catalogue.go) and read from JSON.               *)
(***************************************************************************)
EXTENDS Integers, Sequences, FiniteSets, TLC

VARIABLES
  env,    \* [cat, cfg, store]: catalogue and configuration of this run (constant between resets)
  blob,   \* [repo -> SUBSET digests]       content retrievable through /blobs/
  man,    \* [repo -> [digests -|-> mt]]    manifests addressable through /manifests/<digest>, with recorded media type
  tag,    \* [repo -> [tags -|-> digest]]
  sess,   \* [handle -|-> [repo, alg, expect, parts, off, open]]  upload sessions ever created (open or gone)
  nsess,  \* number of session handles handed out so far ("s1", "s2", ...)
  clk,    \* [now, timer]: virtual time in seconds and, per repository, when the age timer of its session cache is due (-1: none)
  young,  \* [repo -> SUBSET digests]       blobs younger than the grace period (for collection)
  base,   \* [blob, man, tag]: what the directory below a memory store holds (a memory store restarts from it)
  resp    \* predicted response of the last action (output only)

vars == <<env, blob, man, tag, sess, nsess, clk, young, base, resp>>

-----------------------------------------------------------------------------
\* catalogue access
Cat      == env.cat
Cfg      == env.cfg
Repos    == {Cat.repos[i] : i \in DOMAIN Cat.repos}
TagSeq   == Cat.tags
Tags     == {TagSeq[i] : i \in DOMAIN TagSeq}
Digs     == DOMAIN Cat.digs
CidOf(d) == Cat.digs[d].c
AlgOf(d) == Cat.digs[d].a
IsManC(c) == c \in DOMAIN Cat.mans
IsBlobC(c) == c \in DOMAIN Cat.blobs
IsMan(d) == d \in Digs /\ IsManC(CidOf(d))
M(c)     == Cat.mans[c]
Range(s) == {s[i] : i \in DOMAIN s}
Dig(a, c) == a \o ":" \o c                      \* the injective model hash
Algs     == {"sha256", "sha384", "sha512"}

Refs(c)  == (IF M(c).cfg = "" THEN {} ELSE {M(c).cfg}) \cup Range(M(c).layers) \cup Range(M(c).children)
SubjectOf(d) == IF IsMan(d) THEN M(CidOf(d)).subject ELSE ""
ATOf(d)      == M(CidOf(d)).at
LenOfC(c)    == IF IsManC(c) THEN M(c).len ELSE IF IsBlobC(c) THEN Cat.blobs[c].len ELSE 0

ImageMTs == {"oci.image", "docker.image"}
IndexMTs == {"oci.index", "docker.index"}
KindOfMT(mt) == IF mt \in ImageMTs THEN "image" ELSE IF mt \in IndexMTs THEN "index" ELSE "other"

TagRank(t) == CHOOSE i \in DOMAIN TagSeq : TagSeq[i] = t

\* restriction / update of partial functions
Restrict(f, S) == [x \in S |-> f[x]]
Upd(f, x, v)   == [y \in DOMAIN f \cup {x} |-> IF y = x THEN v ELSE f[y]]

\* the referrers of subject S in repository r: DERIVED, exactly as the property states it
Referrers(r, S) == {d \in DOMAIN man[r] : SubjectOf(d) = S}

\* what a read of manifest digest d / tag t answers
ManReadable(r, d) == d \in DOMAIN man[r] /\ d \in blob[r]
TagReadable(r, t) == t \in DOMAIN tag[r] /\ tag[r][t] \in blob[r]

CanPush   == Cfg.push /\ ~Cfg.readOnly
CanDelete == Cfg.delete /\ ~Cfg.readOnly
CanBlobDelete == CanDelete /\ Cfg.blobDelete

-----------------------------------------------------------------------------
\* responses: class "ok" (2xx) / "refused" (4xx); status is pinned where a property names it, else 0
R0 == [class |-> "ok", status |-> 0, dig |-> "", sess |-> "", off |-> -1, subject |-> "", mt |-> "", body |-> "",
       list |-> <<>>, link |-> FALSE]
Ok(st)      == [R0 EXCEPT !.status = st]
Refused     == [R0 EXCEPT !.class = "refused"]

-----------------------------------------------------------------------------
\* upload sessions
Handle(n)  == "s" \o ToString(n)
OpenIn(r)  == {h \in DOMAIN sess : sess[h].open /\ sess[h].repo = r}
NoSess     == [parts |-> <<>>, off |-> 0, open |-> FALSE, repo |-> "", alg |-> "", expect |-> "", used |-> 0]
\* Sessions live in a bounded cache per repository (internal/cache): every request that finds the session refreshes its
\* last use; an entry unused for the grace period (Age) expires when the cache's age timer fires; when a repository
\* holds more than uploadMax entries the least recently used are evicted until MinCount remain.  Time is virtual: every
\* operation takes one second (so last uses are totally ordered), Tick moves the clock and lets due timers fire.
SessAge    == IF "grace" \in DOMAIN Cfg /\ Cfg.grace THEN 3600 ELSE 0
SessMaxAge == SessAge + (SessAge \div 10)
UploadMax  == IF "uploadMax" \in DOMAIN Cfg THEN Cfg.uploadMax ELSE 0
SessMin    == IF UploadMax = 0 THEN 0 ELSE IF (9 * UploadMax) \div 10 < 1 THEN 1 ELSE (9 * UploadMax) \div 10
Touch(s, r, h) == IF Cfg.push /\ h \in DOMAIN s /\ s[h].open /\ s[h].repo = r THEN [s EXCEPT ![h].used = clk.now] ELSE s
PartLen(c, p) == IF p = "e" THEN 0 ELSE Cat.cuts[c][p]

\* the content id a sequence of accepted parts amounts to ("junk" if it is no whole catalogue content)
Whole(parts) ==
  LET ne == SelectSeq(parts, LAMBDA x : x[2] # "e" /\ PartLen(x[1], x[2]) > 0) IN
  IF ne = <<>> THEN "empty"            \* zero bytes: the empty content, if the catalogue has one
  ELSE LET c == ne[1][1] IN
       IF \A i \in DOMAIN ne : ne[i][1] = c
       THEN LET ps == [i \in DOMAIN ne |-> ne[i][2]]
                full == <<"p1", "p2", "p3">>
                nz == SelectSeq(full, LAMBDA p : PartLen(c, p) > 0)
            IN IF ps = <<"all">> \/ ps = nz THEN c ELSE "junk"
       ELSE "junk"

\* does the data amount to the content whose digest is d ?
DataIs(parts, d) ==
  /\ d \in Digs
  /\ LET w == Whole(parts) IN
     IF w = "empty" THEN LenOfC(CidOf(d)) = 0 ELSE w = CidOf(d)

ValidAlgParam(a) == a \in Algs \cup {""}
WellFormed(d) == d \in Digs          \* digests outside the catalogue universe are only used as malformed classes

-----------------------------------------------------------------------------
\* POST /v2/<r>/blobs/uploads/  (blob.go: blobUploadPost, blobUploadMount)
UpPost(r, dig, alg, mount, from, chunk) ==
  LET mountHit == mount # "" /\ from # "" /\ WellFormed(mount) /\
                  (mount \in blob[r] \/ (from \in Repos /\ mount \in blob[from]))
  IN
  IF ~CanPush \/ r \notin Repos THEN resp' = Refused /\ UNCHANGED <<blob, sess, nsess, young>>
  ELSE IF mountHit THEN
       /\ blob' = [blob EXCEPT ![r] = @ \cup {mount}]
       /\ young' = [young EXCEPT ![r] = @ \cup {mount}]       \* an acknowledged push is recent, also of content already held
       /\ resp' = [Ok(201) EXCEPT !.dig = mount]
       /\ UNCHANGED <<sess, nsess>>
  ELSE IF ~ValidAlgParam(alg) \/ (dig # "" /\ ~WellFormed(dig)) \/ (dig = "" /\ mount # "" /\ ~WellFormed(mount))
       THEN resp' = Refused /\ UNCHANGED <<blob, sess, nsess, young>>
  ELSE IF dig # "" THEN
       \* monolithic upload: an existing blob is acknowledged without reading the body
       \* (when the body does not match, acknowledging the existing blob and refusing the body are both fine)
       IF dig \in blob[r] THEN /\ resp' = IF DataIs(<< <<chunk.c, chunk.p>> >>, dig) THEN [Ok(201) EXCEPT !.dig = dig]
                                            ELSE [Refused EXCEPT !.class = "any"]
                              /\ young' = [young EXCEPT ![r] = @ \cup {dig}]
                              /\ UNCHANGED <<blob, sess, nsess>>
       ELSE IF DataIs(<< <<chunk.c, chunk.p>> >>, dig)
            THEN /\ blob' = [blob EXCEPT ![r] = @ \cup {dig}]
                 /\ young' = [young EXCEPT ![r] = @ \cup {dig}]
                 /\ resp' = [Ok(201) EXCEPT !.dig = dig]
                 /\ UNCHANGED <<sess, nsess>>
            ELSE resp' = Refused /\ UNCHANGED <<blob, sess, nsess, young>>
  ELSE IF mount # "" /\ mount \in blob[r]         \* "mount" of something the repository already holds
       THEN resp' = [Ok(201) EXCEPT !.dig = mount] /\ young' = [young EXCEPT ![r] = @ \cup {mount}] /\ UNCHANGED <<blob, sess, nsess>>
  ELSE \* a new session; a mount that could not be satisfied falls back to a session expecting that digest
       LET h == Handle(nsess + 1) IN
       /\ nsess' = nsess + 1
       /\ sess' = Upd(sess, h, [repo |-> r, alg |-> IF alg = "" THEN "sha256" ELSE alg,
                                expect |-> mount, parts |-> <<>>, off |-> 0, open |-> TRUE, used |-> clk.now])
       /\ resp' = [Ok(202) EXCEPT !.sess = h, !.off = 0]
       /\ UNCHANGED <<blob, young>>

SessUsable(r, h) == Cfg.push /\ h \in DOMAIN sess /\ sess[h].open /\ sess[h].repo = r
InOrder(cr, st)  == cr \in {"none", "ok"} /\ st = "ok"

\* PATCH /v2/<r>/blobs/uploads/<id>  (blob.go: blobUploadPatch)
UpPatch(r, h, cr, st, chunk) ==
  /\ UNCHANGED <<blob, nsess, young>>
  /\ IF SessUsable(r, h) /\ InOrder(cr, st)
     THEN LET n == PartLen(chunk.c, chunk.p) IN
          /\ sess' = [sess EXCEPT ![h].parts = Append(@, <<chunk.c, chunk.p>>), ![h].off = @ + n, ![h].used = clk.now]
          /\ resp' = [Ok(202) EXCEPT !.off = sess[h].off + n]
     ELSE resp' = Refused /\ sess' = Touch(sess, r, h)

\* PUT /v2/<r>/blobs/uploads/<id>?digest=  (blob.go: blobUploadPut)
UpPut(r, h, cr, st, dig, chunk) ==
  /\ UNCHANGED <<nsess>>
  /\ IF ~(SessUsable(r, h) /\ InOrder(cr, st) /\ WellFormed(dig))
     THEN resp' = Refused /\ sess' = Touch(sess, r, h) /\ UNCHANGED <<blob, young>>
     ELSE LET data == Append(sess[h].parts, <<chunk.c, chunk.p>>) IN
          /\ sess' = [sess EXCEPT ![h].open = FALSE]          \* completed or failed verification: the session is gone
          /\ IF DataIs(data, dig) /\ sess[h].expect \in {"", dig}
             THEN /\ blob' = [blob EXCEPT ![r] = @ \cup {dig}]
                  /\ young' = [young EXCEPT ![r] = @ \cup {dig}]      \* a completed upload is recent, also of content already held
                  /\ resp' = [Ok(201) EXCEPT !.dig = dig]
             ELSE resp' = Refused /\ UNCHANGED <<blob, young>>

\* GET /v2/<r>/blobs/uploads/<id>  (blob.go: blobUploadGet)
UpGet(r, h) ==
  /\ UNCHANGED <<blob, nsess, young>>
  /\ sess' = Touch(sess, r, h)
  /\ resp' = IF SessUsable(r, h) THEN [Ok(204) EXCEPT !.off = sess[h].off] ELSE Refused

\* DELETE /v2/<r>/blobs/uploads/<id>  (blob.go: blobUploadDelete)
UpDel(r, h) ==
  /\ UNCHANGED <<blob, nsess, young>>
  /\ IF SessUsable(r, h)
     THEN sess' = [sess EXCEPT ![h].open = FALSE] /\ resp' = Ok(202)
     ELSE resp' = Refused /\ UNCHANGED sess

\* byte ranges (classes of the Range header; net/http ServeContent does the slicing)
RangeSat(rg, n) == CASE rg = "pre" -> n >= 1 [] rg = "mid" -> n >= 3 [] rg = "suf" -> n >= 1
                     [] rg = "open" -> n >= 2 [] OTHER -> FALSE
\* response to a read of present content d: 200 whole, 206 slice, refused when the range cannot be satisfied;
\* ranges over empty content are not pinned by any property (class "any")
ReadResp(d, mt, rg) ==
  LET n == LenOfC(CidOf(d))
      full == [Ok(200) EXCEPT !.dig = d, !.body = CidOf(d), !.mt = mt]
  IN IF rg = "" THEN full
     ELSE IF n = 0 THEN [full EXCEPT !.class = "any", !.status = 0]
     ELSE IF RangeSat(rg, n) THEN [full EXCEPT !.status = 206]
     ELSE Refused

\* GET|HEAD /v2/<r>/blobs/<digest>  (blob.go: blobGet)
BlobGet(r, d, rg) ==
  /\ UNCHANGED <<blob, sess, nsess, young>>
  /\ resp' = IF r \in Repos /\ d \in blob[r] THEN ReadResp(d, "", rg) ELSE Refused

\* DELETE /v2/<r>/blobs/<digest>  (blob.go: blobDelete)
BlobDel(r, d) ==
  /\ UNCHANGED <<sess, nsess>>
  /\ IF CanBlobDelete /\ r \in Repos /\ d \in blob[r]
     THEN /\ blob' = [blob EXCEPT ![r] = @ \ {d}]
          /\ young' = [young EXCEPT ![r] = @ \ {d}]
          /\ resp' = Ok(202)
     ELSE \* deleting a blob that is not there: no property pins the answer (a memory store over a directory acknowledges it)
          /\ resp' = IF CanBlobDelete /\ r \in Repos THEN [Refused EXCEPT !.class = "any"] ELSE Refused
          /\ UNCHANGED <<blob, young>>

-----------------------------------------------------------------------------
\* manifests
SupportedCT == ImageMTs \cup IndexMTs \cup {""}

\* the digest a manifest push stores under: the reference if it is a digest, else ?digest=, else canonical
PushDigest(ref, dparam, body) ==
  IF ref.k = "dig" THEN ref.v
  ELSE IF dparam # "" THEN dparam
  ELSE Dig("sha256", body)

\* C04: the acceptance condition of a manifest push
ManAccept(r, ref, ctype, body, dparam) ==
  /\ CanPush /\ r \in Repos
  /\ ref.k \in {"tag", "dig"}
  /\ ref.k = "tag" => ref.v \in Tags
  /\ ctype \in SupportedCT
  /\ IsManC(body)                                              \* the body parses as an image or index manifest
  /\ LET d == PushDigest(ref, dparam, body)
         mt == IF ctype = "" THEN M(body).mt ELSE ctype
     IN /\ d \in Digs /\ CidOf(d) = body                          \* reference / ?digest= is the digest of the body
        /\ (dparam # "" => dparam \in Digs /\ CidOf(dparam) = body)
        /\ KindOfMT(mt) = M(body).kind                           \* media type consistent with the body
        /\ M(body).len <= Cfg.manLimit                           \* never stored in a shortened form
        /\ Refs(body) \subseteq blob[r]                          \* config, layers, children exist in this repository

\* PUT /v2/<r>/manifests/<ref>  (manifest.go: manifestPut)
ManPut(r, ref, ctype, body, dparam) ==
  /\ UNCHANGED <<sess, nsess>>
  /\ IF ManAccept(r, ref, ctype, body, dparam)
     THEN LET d == PushDigest(ref, dparam, body)
              mt == IF ctype = "" THEN M(body).mt ELSE ctype
          IN /\ blob' = [blob EXCEPT ![r] = @ \cup {d}]
             /\ young' = [young EXCEPT ![r] = @ \cup {d}]          \* a pushed manifest is recent, also when it was already held
             /\ man' = [man EXCEPT ![r] = Upd(@, d, mt)]
             /\ tag' = IF ref.k = "tag" THEN [tag EXCEPT ![r] = Upd(@, ref.v, d)] ELSE tag
             /\ resp' = [Ok(201) EXCEPT !.dig = d,
                           !.subject = IF Cfg.referrers THEN M(body).subject ELSE ""]
     ELSE resp' = Refused /\ UNCHANGED <<blob, man, tag, young>>

Resolve(r, ref) ==
  IF r \notin Repos THEN ""
  ELSE IF ref.k = "tag" THEN (IF ref.v \in DOMAIN tag[r] THEN tag[r][ref.v] ELSE "")
  ELSE IF ref.k = "dig" THEN (IF ref.v \in DOMAIN man[r] THEN ref.v ELSE "")
  ELSE ""

\* GET|HEAD /v2/<r>/manifests/<ref>  (manifest.go: manifestGet).  acc is the class of the Accept header: a list that
\* contains every supported type ("all", "comma", "commarev"), a single media type, or "none".  The properties only
\* quantify over lists that contain the stored type; a tag that points to an index, asked for with an image type
\* only, is answered with the first child of that type (platform resolution) -- whatever is served must hash to
\* the digest it is served under (C01).
AcceptsAll(acc) == acc \in {"all", "comma", "commarev", ""}
FirstChild(d, acc) ==
  LET ch == M(CidOf(d)).children
      I == {i \in DOMAIN ch : IsMan(ch[i]) /\ M(CidOf(ch[i])).mt = acc}
  IN IF I = {} THEN "" ELSE ch[CHOOSE i \in I : \A j \in I : i <= j]
ManGet(r, ref, rg, acc) ==
  /\ UNCHANGED <<blob, man, tag, sess, nsess, young>>
  /\ LET d == Resolve(r, ref) IN
     resp' = IF d = "" \/ d \notin blob[r] THEN Refused
             ELSE IF AcceptsAll(acc) \/ acc = man[r][d] THEN ReadResp(d, man[r][d], rg)
             ELSE IF acc = "none" THEN [Refused EXCEPT !.class = "any"]
             ELSE IF ref.k = "tag" /\ KindOfMT(man[r][d]) = "index" /\ FirstChild(d, acc) # ""
                  THEN LET c == FirstChild(d, acc) IN
                       IF c \in blob[r] THEN ReadResp(c, acc, rg) ELSE [Refused EXCEPT !.class = "any"]
             ELSE Refused

\* DELETE /v2/<r>/manifests/<ref>  (manifest.go: manifestDelete)
ManDel(r, ref) ==
  /\ UNCHANGED <<blob, sess, nsess, young>>
  /\ LET d == Resolve(r, ref) IN
     IF CanDelete /\ d # ""
     THEN /\ resp' = Ok(202)
          /\ IF ref.k = "tag"
             THEN /\ tag' = [tag EXCEPT ![r] = Restrict(@, DOMAIN @ \ {ref.v})]       \* only that tag; the manifest stays
                  /\ UNCHANGED man
             ELSE /\ man' = [man EXCEPT ![r] = Restrict(@, DOMAIN @ \ {d})]
                  /\ tag' = [tag EXCEPT ![r] = Restrict(@, {t \in DOMAIN @ : @[t] # d})]  \* with every tag that pointed to it
     ELSE resp' = Refused /\ UNCHANGED <<man, tag>>

\* the sorted sequence of a set of tags
RECURSIVE SortTags(_)
SortTags(S) == IF S = {} THEN <<>>
               ELSE LET m == CHOOSE t \in S : \A u \in S : TagRank(t) <= TagRank(u)
                    IN <<m>> \o SortTags(S \ {m})

\* `last` is a rank code: 2k = the k-th tag, 2k+1 = a string strictly between tag k and tag k+1, 0 = absent
AfterLast(S, last) == {t \in S : 2 * TagRank(t) > last}
Prefix(s, n) == IF n >= Len(s) THEN s ELSE SubSeq(s, 1, n)

\* GET /v2/<r>/tags/list?n=&last=  (tag.go); n is "" (absent) or a positive number here,
\* the classes the property leaves open (n <= 0, non numeric) are judged by the trace specification only
TagsList(r, n, last) ==
  /\ UNCHANGED <<blob, man, tag, sess, nsess, young>>
  /\ LET all == SortTags(AfterLast(IF r \in Repos THEN DOMAIN tag[r] ELSE {}, last))
         page == IF n = 0 THEN all ELSE Prefix(all, n)
     IN resp' = [Ok(200) EXCEPT !.list = page, !.link = (Len(page) < Len(all))]

\* GET /v2/<r>/referrers/<digest>?artifactType=  (referrer.go: referrerGet)
RefsGet(r, S, filter) ==
  /\ UNCHANGED <<blob, man, tag, sess, nsess, young>>
  /\ resp' = IF Cfg.referrers THEN Ok(200) ELSE Refused

-----------------------------------------------------------------------------
\* Tick(n): n seconds pass and every due age timer fires (cache.go: pruneAge): sessions of that repository not used
\* for more than SessAge are gone; the timer is set again for the oldest session that stays.
ExpiredAt(r, t) == {h \in OpenIn(r) : sess[h].used < t - SessAge}
Fires(r, t) == SessAge > 0 /\ clk.timer[r] # -1 /\ clk.timer[r] <= t
MinUsed(S) == CHOOSE u \in {sess[h].used : h \in S} : \A h \in S : u <= sess[h].used
Tick(n) ==
  LET t == clk.now + n
      gone == UNION {IF Fires(r, t) THEN ExpiredAt(r, t) ELSE {} : r \in Repos}
  IN /\ sess' = [h \in DOMAIN sess |-> IF h \in gone THEN [sess[h] EXCEPT !.open = FALSE] ELSE sess[h]]
     /\ clk' = [now |-> t,
                timer |-> [r \in Repos |-> IF ~Fires(r, t) THEN clk.timer[r]
                                            ELSE LET rest == OpenIn(r) \ ExpiredAt(r, t) IN
                                                 IF rest = {} THEN -1 ELSE t + (SessMaxAge - (t - MinUsed(rest)))]]
     /\ resp' = Ok(0)
     /\ UNCHANGED <<env, base, blob, man, tag, nsess, young>>

\* Evict(ev): a count prune of the session caches ran (cache.go: pruneCount, spawned by any blob creation that finds the
\* cache over its limit) and removed the sessions ev.  The step is bound to what was observed; EvictOK is the policy.
EvictOK(ev) ==
  /\ ev \subseteq {h \in DOMAIN sess : sess[h].open}
  /\ \A r \in Repos : LET E == ev \cap OpenIn(r) IN
        E # {} => /\ UploadMax > 0
                  /\ \A h \in E, k \in OpenIn(r) \ E : sess[h].used < sess[k].used      \* least recently used first
                  /\ Cardinality(OpenIn(r) \ E) = SessMin                              \* down to the lower mark, not below
EvictedOf(op) == IF "evicted" \in DOMAIN op THEN {op.evicted[i] : i \in DOMAIN op.evicted} ELSE {}
Evict(ev) ==
  /\ sess' = [h \in DOMAIN sess |-> IF h \in ev THEN [sess[h] EXCEPT !.open = FALSE] ELSE sess[h]]
  /\ resp' = Ok(0)
  /\ UNCHANGED <<env, base, blob, man, tag, nsess, young>>
\* the bound: once no prune is pending no repository holds more sessions than configured
WithinBound == UploadMax > 0 => \A r \in Repos : Cardinality(OpenIn(r)) <= UploadMax

-----------------------------------------------------------------------------
\* Restart: close the server and open a new one on the same directory.  Upload sessions do not survive; a memory
\* store (pure, or layered over a directory it never writes to) starts again from what that directory holds (base),
\* a directory store presents the same content (the collection it runs on Close is bound by the trace specification).
Volatile == env.store \in {"mem", "memdir"}
Restart ==
  /\ sess' = [h \in DOMAIN sess |-> [sess[h] EXCEPT !.open = FALSE]]
  /\ resp' = Ok(0)
  /\ UNCHANGED <<nsess, base, env>>
  /\ IF Volatile
     THEN /\ blob' = base.blob /\ man' = base.man /\ tag' = base.tag
          /\ young' = [r \in Repos |-> young[r] \cap base.blob[r]]
     ELSE UNCHANGED <<blob, man, tag, young>>

\* Reconf: close the server, open a new one with another configuration and store kind on the same directory
\* (read-only, memory over the directory, APIs switched off ...).
Reconf(nc) ==
  /\ sess' = [h \in DOMAIN sess |-> [sess[h] EXCEPT !.open = FALSE]]
  /\ resp' = Ok(0)
  /\ UNCHANGED nsess
  /\ env' = [env EXCEPT !.cfg = nc, !.store = nc.store]
  /\ IF Volatile
     THEN /\ blob' = base.blob /\ man' = base.man /\ tag' = base.tag
          /\ young' = [r \in Repos |-> young[r] \cap base.blob[r]]
          /\ UNCHANGED base
     ELSE /\ UNCHANGED <<blob, man, tag, young>>
          /\ base' = [blob |-> blob, man |-> man, tag |-> tag]

-----------------------------------------------------------------------------
\* Garbage collection policy (C05, C06).  internal/store/store.go: repoGarbageCollect.
\*
\* MustMan / MustBlobs: what no collection may remove, under every policy (C05):
\*   tagged manifests; every manifest that is not a referrer while untagged collection is off; everything a retained
\*   manifest references transitively (children as manifests, config and layers as blobs -- a digest reached in several
\*   roles is retained in each of them); the referrers of a retained subject manifest with their content; and every
\*   blob / manifest younger than the grace period.
\* MayMan / MayBlobs: what some reading of the documented switches retains; everything outside is garbage that one
\*   collection removes once nothing is young (C06).  The two differ only where the documented meaning of the referrer
\*   switches is ambiguous (referrers whose subject is not a retained manifest), see DESIGN.md section 6, C05/C06.
Young(r)  == IF Cfg.grace THEN young[r] ELSE {}
ManSet(r) == {d \in DOMAIN man[r] : d \in blob[r]}
IsArt(d)  == SubjectOf(d) # ""
Tagged(r) == {tag[r][t] : t \in DOMAIN tag[r]}

IndexIn(R) == {x \in R : IsMan(x) /\ M(CidOf(x)).kind = "index"}
ImageIn(R) == {x \in R : IsMan(x) /\ M(CidOf(x)).kind = "image"}
GCStep(r, R) == R \cup UNION {Range(M(CidOf(d)).children) \cap blob[r] : d \in IndexIn(R)}
                  \cup {a \in ManSet(r) : IsArt(a) /\ SubjectOf(a) \in R}
RECURSIVE GCFix(_, _)
GCFix(r, R) == IF GCStep(r, R) = R THEN R ELSE GCFix(r, GCStep(r, R))
BlobsOf(r, R) == R \cup UNION {({M(CidOf(d)).cfg} \cup Range(M(CidOf(d)).layers)) \cap blob[r] : d \in ImageIn(R)}

\* (a manifest younger than the grace period is retained, so what it references is retained with it: a collection between
\*  the push of an image by digest and the push of the index that lists it must not take the image's layers)
RootsMust(r) == (Tagged(r) \cap blob[r]) \cup (IF ~Cfg.untagged THEN {d \in ManSet(r) : ~IsArt(d)} ELSE {})
                \cup (Young(r) \cap ManSet(r))
MustMan(r)   == GCFix(r, RootsMust(r))
MustBlobs(r) == BlobsOf(r, MustMan(r)) \cup Young(r)
MustAddr(r)  == (MustMan(r) \cup Young(r)) \cap ManSet(r)          \* manifests that must stay addressable

\* referrers that some reading keeps although their subject is not a retained manifest
MayArt(r, a) == \/ ~Cfg.untagged
                \/ (~Cfg.withSubj /\ ~Cfg.dangling)
                \/ (SubjectOf(a) \notin blob[r] /\ ~Cfg.dangling)
RootsMay(r)  == RootsMust(r) \cup {a \in ManSet(r) : IsArt(a) /\ MayArt(r, a)} \cup (Young(r) \cap ManSet(r))
\* a response that lists a retained referrer is kept, and with it every referrer it lists
GCStepMay(r, R) == GCStep(r, R) \cup {a \in ManSet(r) : IsArt(a) /\ \E b \in R : IsArt(b) /\ SubjectOf(b) = SubjectOf(a)}
RECURSIVE GCFixMay(_, _)
GCFixMay(r, R) == IF GCStepMay(r, R) = R THEN R ELSE GCFixMay(r, GCStepMay(r, R))
MayMan(r)    == GCFixMay(r, RootsMay(r))
MayBlobs(r)  == BlobsOf(r, MayMan(r)) \cup Young(r)

\* one collection of repository r; the prediction used when generating keeps everything that may be kept,
\* trace validation binds the result to the observation and judges it with the clauses of C05/C06
GCKeepMan(r) == {d \in DOMAIN man[r] : d \in MayMan(r) \/ d \in Young(r)}   \* (entries without content are pruned)
GC(r) ==
  /\ UNCHANGED <<sess, nsess>>
  /\ IF r \notin Repos \/ Cfg.readOnly THEN UNCHANGED <<blob, man, tag, young>> /\ resp' = Ok(0)
     ELSE /\ blob' = [blob EXCEPT ![r] = @ \cap MayBlobs(r)]
          /\ man' = [man EXCEPT ![r] = Restrict(@, GCKeepMan(r))]
          /\ tag' = [tag EXCEPT ![r] = Restrict(@, {t \in DOMAIN @ : @[t] \in GCKeepMan(r)})]
          /\ young' = [young EXCEPT ![r] = @ \cap MayBlobs(r)]
          /\ resp' = Ok(0)

\* one store wide pass: every repository is collected, whatever the order and whatever state other repositories are in
GCPass ==
  /\ UNCHANGED <<sess, nsess>>
  /\ IF Cfg.readOnly THEN UNCHANGED <<blob, man, tag, young>>
     ELSE /\ blob' = [r \in Repos |-> blob[r] \cap MayBlobs(r)]
          /\ man' = [r \in Repos |-> Restrict(man[r], GCKeepMan(r))]
          /\ tag' = [r \in Repos |-> Restrict(tag[r], {t \in DOMAIN tag[r] : tag[r][t] \in GCKeepMan(r)})]
          /\ young' = [r \in Repos |-> young[r] \cap MayBlobs(r)]
  /\ resp' = Ok(0)

\* the grace period elapses for everything the repository holds
Age(r) ==
  /\ UNCHANGED <<blob, man, tag, sess, nsess>>
  /\ young' = IF r \in Repos THEN [young EXCEPT ![r] = {}] ELSE young
  /\ resp' = Ok(0)

\* is the collection that Close performs on a directory store a no-op ?
GCNoop == /\ ~Cfg.untagged /\ ~Cfg.dangling /\ ~Cfg.withSubj /\ Cfg.grace
          /\ \A r \in Repos : young[r] = blob[r] /\ DOMAIN man[r] \subseteq blob[r]     \* nothing old, no entry without content

-----------------------------------------------------------------------------
InitState ==
  /\ blob = [r \in Repos |-> {}]
  /\ man = [r \in Repos |-> <<>>]
  /\ tag = [r \in Repos |-> <<>>]
  /\ young = [r \in Repos |-> {}]
  /\ base = [blob |-> [r \in Repos |-> {}], man |-> [r \in Repos |-> <<>>], tag |-> [r \in Repos |-> <<>>]]
  /\ sess = <<>>
  /\ nsess = 0
  /\ clk = [now |-> 0, timer |-> [r \in Repos |-> -1]]
  /\ resp = R0

\* dispatch on an operation record (the JSON shape the harness logs and TLC generates)
Do0(op) ==
  CASE op.op = "UpPost"   -> UpPost(op.repo, op.dig, op.alg, op.mount, op.from, op.chunk) /\ UNCHANGED <<env, base, man, tag>>
    [] op.op = "UpPatch"  -> UpPatch(op.repo, op.sess, op.cr, op.st, op.chunk) /\ UNCHANGED <<env, base, man, tag>>
    [] op.op = "UpPut"    -> UpPut(op.repo, op.sess, op.cr, op.st, op.dig, op.chunk) /\ UNCHANGED <<env, base, man, tag>>
    [] op.op = "UpGet"    -> UpGet(op.repo, op.sess) /\ UNCHANGED <<env, base, man, tag>>
    [] op.op = "UpDel"    -> UpDel(op.repo, op.sess) /\ UNCHANGED <<env, base, man, tag>>
    [] op.op = "BlobGet"  -> BlobGet(op.repo, op.dig, op.range) /\ UNCHANGED <<env, base, man, tag>>
    [] op.op = "BlobDel"  -> BlobDel(op.repo, op.dig) /\ UNCHANGED <<env, base, man, tag>>
    [] op.op = "ManPut"   -> ManPut(op.repo, op.ref, op.ctype, op.body, op.dparam) /\ UNCHANGED <<env, base>>
    [] op.op = "ManGet"   -> ManGet(op.repo, op.ref, op.range, op.accept) /\ UNCHANGED <<env, base>>
    [] op.op = "ManDel"   -> ManDel(op.repo, op.ref) /\ UNCHANGED <<env, base>>
    [] op.op = "TagsList" -> TagsList(op.repo, op.ni, op.last) /\ UNCHANGED <<env, base>>
    [] op.op = "Restart"  -> Restart
    [] op.op = "GC"       -> GC(op.repo) /\ UNCHANGED <<env, base>>
    [] op.op = "GCPass"   -> GCPass /\ UNCHANGED <<env, base>>
    [] op.op = "Age"      -> Age(op.repo) /\ UNCHANGED <<env, base>>
    [] op.op = "Reconf"   -> Reconf(op.newcfg)
    [] op.op = "Evict"    -> Evict(EvictedOf(op))
    [] OTHER              -> UNCHANGED <<env, base, blob, man, tag, sess, nsess, young>> /\ resp' = R0

\* every operation but Tick takes one second; the age timer of a repository's session cache exists exactly while the
\* repository has sessions: armed (now + MaxAge) by the first, stopped with the last
ClockStep ==
  clk' = [now |-> clk.now + 1,
          timer |-> [r \in Repos |-> IF {h \in DOMAIN sess' : sess'[h].open /\ sess'[h].repo = r} = {} THEN -1
                                      ELSE IF r \notin DOMAIN clk.timer \/ clk.timer[r] = -1 THEN clk.now + SessMaxAge
                                      ELSE clk.timer[r]]]
Do(op) == IF op.op = "Tick" THEN Tick(op.ni) ELSE (Do0(op) /\ ClockStep)

-----------------------------------------------------------------------------
\* Invariants of the model (checked exhaustively in MCRegistry)
TypeOK ==
  /\ \A r \in Repos : blob[r] \subseteq Digs /\ DOMAIN man[r] \subseteq Digs /\ DOMAIN tag[r] \subseteq Tags
  /\ \A r \in Repos : \A t \in DOMAIN tag[r] : tag[r][t] \in DOMAIN man[r]
  /\ \A r \in Repos : \A d \in DOMAIN man[r] : IsMan(d)
  /\ \A r \in Repos : young[r] \subseteq blob[r]

\* C04 at the model level: a manifest is only ever indexed while it was complete when pushed
\* (history free form: every indexed manifest's digest names a manifest content)
ManifestsAreManifests == \A r \in Repos : \A d \in DOMAIN man[r] : KindOfMT(man[r][d]) = M(CidOf(d)).kind

\* C08: sessions
SessionsWellFormed ==
  \A h \in DOMAIN sess : /\ sess[h].repo \in Repos
                         /\ sess[h].off >= 0
=============================================================================
