------------------------------- MODULE Cache -------------------------------
(***************************************************************************)
(* internal/cache/cache.go: the bounded cache behind upload sessions, open *)
(* repositories, referrer pages and the rate limiter (C20).                *)
(*                                                                         *)
(* Sequential grain: every public call and every background activation     *)
(* (the age timer firing = pruneAge, a spawned pruneCount goroutine        *)
(* running) is one action.  Time is in ticks; the clock only moves in Tick *)
(* (by Step ticks).  Keys in FailKeys have a cleanup callback that reports *)
(* an error.                                                               *)
(***************************************************************************)
EXTENDS Integers, Sequences, FiniteSets, TLC

CONSTANTS Keys, Age, Count, Step, MaxT, FailKeys, None
MaxAge   == Age + (Age \div 10)            \* opt.Age + opt.Age/10
MinCount == (9 * Count) \div 10            \* int(float64(opt.Count) * 0.9), at least 1 for a positive Count (see New)
MinCountEff == IF Count > 0 /\ MinCount < 1 THEN 1 ELSE MinCount

VARIABLES used,     \* [present keys -> last use time]
          now,      \* clock
          timer,    \* time the age timer is due (None: no timer)
          pending,  \* number of spawned pruneCount goroutines that have not run yet
          last      \* [op, key, removed, called, okcalled]: what the last step did (output only)
vars == <<used, now, timer, pending, last>>

Present == DOMAIN used
Restrict(f, S) == [k \in S |-> f[k]]
MinOf(S) == CHOOSE x \in S : \A y \in S : x <= y
L(op, k, removed, called) == [op |-> op, key |-> k, removed |-> removed, called |-> called]

Init == used = << >> /\ now = 0 /\ timer = None /\ pending = 0 /\ last = L("init", None, {}, {})

\* Set: insert / refresh, arm the age timer, spawn a count prune when over the limit
Set(k) ==
  /\ used' = [x \in Present \cup {k} |-> IF x = k THEN now ELSE used[x]]
  /\ timer' = IF timer = None /\ MaxAge > 0 THEN now + MaxAge ELSE timer
  /\ pending' = IF Count > 0 /\ Cardinality(Present \cup {k}) > Count THEN pending + 1 ELSE pending
  /\ UNCHANGED now /\ last' = L("Set", k, {}, {})

\* Get refreshes the last use time
Get(k) ==
  /\ used' = IF k \in Present THEN [used EXCEPT ![k] = now] ELSE used
  /\ UNCHANGED <<now, timer, pending>> /\ last' = L("Get", k, {}, {})

\* Delete: the cleanup runs first; an entry whose cleanup fails stays
Delete(k) ==
  /\ IF k \in Present /\ k \in FailKeys
     THEN UNCHANGED <<used, timer>> /\ last' = L("Delete", k, {}, {k})
     ELSE /\ used' = Restrict(used, Present \ {k})
          /\ timer' = IF Present \ {k} = {} THEN None ELSE timer
          /\ last' = L("Delete", k, Present \cap {k}, Present \cap {k})
  /\ UNCHANGED <<now, pending>>

DeleteAll ==
  /\ used' = Restrict(used, Present \cap FailKeys)
  /\ timer' = IF Present \cap FailKeys = {} THEN None ELSE timer
  /\ last' = L("DeleteAll", None, Present \ FailKeys, Present)
  /\ UNCHANGED <<now, pending>>

Tick == now + Step <= MaxT /\ now' = now + Step /\ UNCHANGED <<used, timer, pending>> /\ last' = L("Tick", None, {}, {})

\* the age timer fires: pruneAge
TimerFire ==
  /\ timer # None /\ now >= timer
  /\ IF Age <= 0 THEN UNCHANGED <<used, timer>> /\ last' = L("TimerFire", None, {}, {})
     ELSE LET cutoff  == now - Age
              expired == {k \in Present : used[k] < cutoff}
              gone    == expired \ FailKeys
              u2      == [k \in Present \ gone |-> IF k \in expired THEN now ELSE used[k]]   \* a failed cleanup refreshes the entry
              fresh   == {used[k] : k \in Present \ expired}
              oldest  == IF fresh = {} THEN now ELSE MinOf(fresh \cup {now})
              dur0    == MaxAge - (now - oldest)
              dur     == IF dur0 <= 0 THEN 1 ELSE dur0
          IN /\ used' = u2
             /\ timer' = IF DOMAIN u2 # {} THEN now + dur ELSE None
             /\ last' = L("TimerFire", None, gone, expired)
  /\ UNCHANGED <<now, pending>>

\* a spawned pruneCount runs: keys in order of last use (ties in any order) are removed until MinCount remain;
\* a failing cleanup refreshes the entry and the scan goes on
RECURSIVE Evict(_, _, _, _)
Evict(order, u, delCount, delLen) ==
  IF order = <<>> \/ delCount >= delLen THEN u
  ELSE LET k == Head(order) IN
       IF k \in FailKeys THEN Evict(Tail(order), [u EXCEPT ![k] = now], delCount, delLen)
       ELSE Evict(Tail(order), Restrict(u, DOMAIN u \ {k}), delCount + 1, delLen)
Orders(S) == {s \in [1..Cardinality(S) -> S] :
                /\ \A i, j \in 1..Cardinality(S) : i # j => s[i] # s[j]
                /\ \A i, j \in 1..Cardinality(S) : i < j => used[s[i]] <= used[s[j]]}
PruneOutcomes == IF MinCountEff <= 0 \/ Cardinality(Present) <= MinCountEff THEN {used}
                 ELSE {Evict(o, used, 0, Cardinality(Present) - MinCountEff) : o \in Orders(Present)}
PruneCountRun ==
  /\ pending > 0 /\ pending' = pending - 1
  /\ \E u2 \in PruneOutcomes :
        /\ used' = u2
        /\ last' = L("PruneCount", None, Present \ DOMAIN u2, {k \in Present : k \notin DOMAIN u2 \/ u2[k] # used[k]})
  /\ UNCHANGED <<now, timer>>

Next == (\E k \in Keys : Set(k) \/ Get(k) \/ Delete(k)) \/ DeleteAll \/ Tick \/ TimerFire \/ PruneCountRun
Spec == Init /\ [][Next]_vars /\ WF_vars(PruneCountRun)
View == <<used, now, timer, pending>>
PendingBound == pending <= 2          \* state constraint of the exhaustive configurations (every Set over the limit spawns one)

-----------------------------------------------------------------------------
\* C20
\* an entry is never removed without a successful cleanup, and an entry whose cleanup failed stays
CleanupBeforeRemoval == [][(Present \ DOMAIN used') \subseteq (last'.called \ FailKeys)]_vars
FailedKept     == [][(Present \cap FailKeys) \subseteq DOMAIN used']_vars
\* the age timer never removes an entry that was used within Age
NoEarlyExpiry  == [][last'.op = "TimerFire" => \A k \in last'.removed : now - used[k] > Age]_vars
\* count pruning removes least recently used entries first
LRUFirst       == [][last'.op = "PruneCount" =>
                       \A k \in last'.removed, j \in DOMAIN used' \ FailKeys : j \in Present => used[k] <= used[j]]_vars
\* while cleanups succeed, once every spawned prune has run the cache is back within its limit
BoundedAtRest  == (Count > 0 /\ FailKeys = {} /\ pending = 0) => Cardinality(Present) <= Count
BackToLimit    == (Count > 0 /\ FailKeys = {}) => []<>(Cardinality(Present) <= Count)
=============================================================================
