----------------------------- MODULE TraceIndex -----------------------------
(***************************************************************************)
(* C18: the property-level model of the repository index (IndexAbs) and    *)
(* the validation of traces recorded from the real types.Index.            *)
(*                                                                         *)
(* Abstract state: tagmap (tag -> digest), subjmap (subject -> digest of   *)
(* the referrers response), child (digests recorded as children).  Every   *)
(* event carries the operation and the projection of the real index        *)
(* through its public surface: the Manifests list, GetDesc for every tag   *)
(* and digest, GetByAnnotation for every subject, and the same projection  *)
(* of a Copy taken earlier.  The clauses are the statements of C18.        *)
(***************************************************************************)
EXTENDS Integers, Sequences, FiniteSets, TLC, Json

VARIABLES tagmap, subjmap, child, childMay, prev, snap, hascopy, l, skip, fails, stats
tvars == <<tagmap, subjmap, child, childMay, prev, snap, hascopy, l, skip, fails, stats>>

Trace == ndJsonDeserialize("trace.ndjson")
S(q) == {q[i] : i \in DOMAIN q}
Top(p) == {p.list[i].d : i \in DOMAIN p.list}
Lookup(f, k) == IF k \in DOMAIN f THEN f[k] ELSE ""
Without(f, K) == [k \in DOMAIN f \ K |-> f[k]]
With(f, k, v) == [x \in DOMAIN f \cup {k} |-> IF x = k THEN v ELSE f[x]]
Count(p, P(_)) == Cardinality({i \in DOMAIN p.list : P(p.list[i])})

\* abstract effect of an operation (o: logged operation, p: projection after it, q: projection before it)
NextTag(o) ==
  CASE o.op = "AddDesc" /\ o.t # ""            -> With(tagmap, o.t, o.d)
    [] o.op = "RmDesc" /\ o.d # "" /\ o.t = "" -> Without(tagmap, {t \in DOMAIN tagmap : tagmap[t] = o.d})
    [] o.op = "RmDesc" /\ o.d # "" /\ o.t # "" -> IF Lookup(tagmap, o.t) = o.d THEN Without(tagmap, {o.t}) ELSE tagmap
    [] o.op = "RmDesc" /\ o.d = "" /\ o.t # "" -> Without(tagmap, {o.t})
    [] OTHER -> tagmap
NextSubj(o) ==
  CASE o.op = "AddDesc" /\ o.s # ""            -> With(subjmap, o.s, o.d)
    [] o.op = "RmDesc" /\ o.d # "" /\ o.t = "" -> Without(subjmap, {s \in DOMAIN subjmap : subjmap[s] = o.d})
    [] o.op = "RmDesc" /\ o.d = "" /\ o.s # "" -> Without(subjmap, {o.s})
    [] OTHER -> subjmap
\* children.  Whether the WithChildren option moves a digest that has several top level entries to the child list
\* depends on the order of the entries, which the public surface does not pin; the abstract model therefore keeps
\* a lower bound `child` (certainly recorded: AddChildren, or moved and gone from the top level) and an upper bound
\* `childMay` (possibly recorded).  The exact child list is checked on IndexImpl (LookupByDigest) and bound to the
\* code by the list comparison (drift).
NextChild(o, p, q) ==
  CASE o.op = "AddDesc"  -> (child \ {o.d}) \cup {c \in S(o.children) : /\ c \in Top(q) /\ c \notin Top(p)
                                                                         \* (the replaced response of o.s is dropped, not moved)
                                                                         /\ (o.s = "" \/ c # Lookup(subjmap, o.s))}
    [] o.op = "RmDesc" /\ o.d # "" /\ o.t = "" -> child \ {o.d}
    [] o.op = "AddChildren" -> child \cup S(o.children)
    [] OTHER -> child
NextChildMay(o, p, q) ==
  CASE o.op = "AddDesc"  -> childMay \cup {c \in S(o.children) : c \in Top(q)}
    [] o.op = "RmDesc" /\ o.d # "" /\ o.t = "" -> childMay \ {o.d}
    [] o.op = "AddChildren" -> childMay \cup S(o.children)
    [] OTHER -> childMay

Clauses(e, q) ==
  LET o == e.op
      p == e.proj
      tm == NextTag(o)
      sm == NextSubj(o)
      ch == NextChild(o, p, q)
      cm == NextChildMay(o, p, q)
  IN
  { <<"nopanic", ~e.panic>>,
    <<"tagunique", \A t \in DOMAIN p.bytag : Count(p, LAMBDA x : x.t = t) <= 1>>,
    <<"subjunique", \A s \in DOMAIN p.bysubj : Count(p, LAMBDA x : x.s = s) <= 1>>,
    <<"untaggedonce", \A d \in DOMAIN p.bydig : Count(p, LAMBDA x : x.d = d /\ x.t = "" /\ x.s = "") <= 1>>,
    <<"taglookup", \A t \in DOMAIN p.bytag : p.bytag[t] = Lookup(tm, t)>>,
    <<"subjlookup", \A s \in DOMAIN p.bysubj : p.bysubj[s] = Lookup(sm, s)>>,
    <<"diglookup", \A d \in DOMAIN p.bydig : /\ ((d \in Top(p) \/ d \in ch) => p.bydig[d])
                                               /\ (p.bydig[d] => (d \in Top(p) \/ d \in cm))>>,
    <<"rmtagkeeps", (o.op = "RmDesc" /\ o.d # "" /\ o.t # "" /\ q.bydig[o.d]) => p.bydig[o.d]>>,
    <<"rmdigestall", (o.op = "RmDesc" /\ o.d # "" /\ o.t = "") =>
                        /\ o.d \notin Top(p) /\ ~p.bydig[o.d]
                        /\ \A t \in DOMAIN p.bytag : p.bytag[t] # o.d
                        /\ \A s \in DOMAIN p.bysubj : p.bysubj[s] # o.d>>,
    \* copies are independent: an earlier copy is not changed by operations on the original, and vice versa
    <<"copyindep", /\ (o.op # "Copy" /\ o.op # "MutCopy" /\ hascopy) => e.copy = snap
                   /\ o.op = "MutCopy" => p = q>> }

Failed(e, q) == {c[1] : c \in {x \in Clauses(e, q) : ~x[2]}}

Empty == [list |-> <<>>, bytag |-> <<>>, bysubj |-> <<>>, bydig |-> <<>>]

TraceInit ==
  /\ tagmap = <<>> /\ subjmap = <<>> /\ child = {} /\ childMay = {} /\ prev = Empty /\ snap = Empty /\ hascopy = FALSE
  /\ l = 1 /\ skip = FALSE /\ fails = <<>>
  /\ stats = [events |-> 0, checked |-> 0, traces |-> 0, drift |-> 0]

TraceReset ==
  /\ l <= Len(Trace) /\ Trace[l].k = "reset"
  /\ tagmap' = <<>> /\ subjmap' = <<>> /\ child' = {} /\ childMay' = {} /\ snap' = Empty /\ hascopy' = FALSE
  /\ prev' = [Empty EXCEPT !.bydig = Trace[l].nodigs]
  /\ l' = l + 1 /\ skip' = FALSE /\ UNCHANGED fails
  /\ stats' = [stats EXCEPT !.traces = @ + 1]

TraceOp ==
  /\ l <= Len(Trace) /\ Trace[l].k = "op"
  /\ l' = l + 1
  /\ IF skip
     THEN UNCHANGED <<tagmap, subjmap, child, childMay, prev, snap, hascopy, skip, fails>> /\ stats' = [stats EXCEPT !.events = @ + 1]
     ELSE LET e == Trace[l]
              f == Failed(e, prev)
          IN /\ tagmap' = NextTag(e.op) /\ subjmap' = NextSubj(e.op) /\ child' = NextChild(e.op, e.proj, prev) /\ childMay' = NextChildMay(e.op, e.proj, prev)
             /\ prev' = e.proj
             /\ snap' = IF e.op.op = "Copy" THEN e.copy ELSE snap
             /\ hascopy' = IF e.op.op = "Copy" THEN TRUE ELSE IF e.op.op = "MutCopy" THEN FALSE ELSE hascopy
             /\ fails' = IF f = {} THEN fails
                         ELSE Append(fails, [trace |-> e.trace, i |-> e.i, line |-> l, op |-> e.op.op, clauses |-> f])
             /\ skip' = (f # {})
             /\ stats' = [stats EXCEPT !.events = @ + 1, !.checked = @ + 1, !.drift = @ + (IF e.drift THEN 1 ELSE 0)]

TraceNext == TraceReset \/ TraceOp
TraceSpec == TraceInit /\ [][TraceNext]_tvars
Consumed == TLCGet("stats").diameter = Len(Trace) + 1
Report == l = Len(Trace) + 1 => PrintT(<<"VERDICT", ToJson([fails |-> fails, stats |-> stats])>>)
=============================================================================
