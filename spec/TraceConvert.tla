---------------------------- MODULE TraceConvert ----------------------------
(* Validates what the real stores present for every layout written to disk against ConvertAbs (C17). *)
EXTENDS ConvertAbs, Json
CONSTANT Focus       \* "C17": writable directory store and memory store over the directory, all clauses;
                     \* "C14": read-only directory store and memory store: the directory is never touched, its content is still served
                     \* "C06": store kind dirgc (nothing tagged but the fallback tags; untagged collection, no grace period,
                     \*        empty repositories removed): the first access is a collection, then a second one
VARIABLES l, fails, stats, first
Trace == ndJsonDeserialize("trace.ndjson")
S(q) == {q[i] : i \in DOMAIN q}
LayOf(j) == [present |-> S(j.present),
             fb |-> [s \in Subjects |-> [tag |-> j.fb[s].tag, list |-> [i \in DOMAIN j.fb[s].list |-> E(j.fb[s].list[i].a, j.fb[s].list[i].d)]]],
             resp |-> S(j.resp), conv |-> j.conv, s512 |-> j.s512]
SymOf(c) == "sha256:" \o c
CidOfSym(d) == IF d = "sha256:a1" THEN "a1" ELSE IF d = "sha256:a2" THEN "a2" ELSE IF d = "sha256:a7" THEN "a7"
               ELSE IF d = "sha256:a4" THEN "a4" ELSE IF d = "sha256:a8" THEN "a8" ELSE d
RefsOf(o, s) == {x \in S(o.refs) : x.s = s /\ x.f = ""}
Clauses(e) ==
  LET L == LayOf(e.layout)
      o == e.obs
  IN
  { <<"terminates", ~e.hung /\ o.errs = <<>>>>,
    \* exactly the listed, existing referrers, grouped by the subject they actually name, descriptors rebuilt correctly
    <<"refs", \A s \in Subjects : \A x \in RefsOf(o, SymOf(s)) :
                 x.st = 200 /\ {CidOfSym(d) : d \in S(x.list)} = Expected(L, s) /\ Len(x.list) = Cardinality(S(x.list)) /\ x.bad = <<>>>>,
    <<"refs512", \A x \in RefsOf(o, "sha512:m1") : {CidOfSym(d) : d \in S(x.list)} = Expected512(L) /\ x.bad = <<>>>>,
    \* every other tag, manifest and blob is kept
    <<"kept", /\ {<<"t1", "sha256:m1">>, <<"t2", "sha256:m2">>} \subseteq {<<x.t, x.d>> : x \in S(o.tags)}
              /\ {"sha256:m1", "sha256:m2"} \subseteq {x.d : x \in S(o.mans)}
              /\ {SymOf(a) : a \in UNION {Expected(L, s) : s \in Subjects}} \subseteq {x.d : x \in S(o.mans)}
              /\ {"sha256:b1", "sha256:b2", "sha256:b3"} \subseteq S(o.blobs)
              /\ (e.bak = "" \/ e.bak \in S(o.taglist))      \* an ordinary tag that starts like a fallback tag
              /\ o.blobsbad = <<>> /\ o.mansbad = <<>> /\ o.tagsbad = <<>>>>,
    \* a writable directory store marks the layout as converted; the other stores do not touch the directory
    <<"marked", (e.store = "dir" /\ ~e.hung) => e.conv>>,
    <<"untouched", e.store \in {"memdir", "dirro"} => ~e.changed>>,
    \* repeating the conversion (re-open) gives the same result
    <<"repeatable", e.phase = "reopen" => e.obs = first>>,
    \* C06: a second collection changes nothing below the root; a repository the collection emptied is removed
    <<"gc.idem", e.phase = "gc" => e.idem>>,
    <<"gc.emptyrepo", (e.phase = "gc" /\ o.blobs = <<>> /\ o.mans = <<>> /\ o.tags = <<>> /\ o.taglist = <<>>) => ~e.exists>> }
Enforced(e) ==
  IF Focus = "C06" THEN (IF e.store = "dirgc" THEN {"terminates", "gc.idem", "gc.emptyrepo"} ELSE {})
  ELSE IF Focus = "C17" THEN (IF e.store \in {"dir", "memdir"} THEN {"terminates", "refs", "refs512", "kept", "marked", "untouched", "repeatable"} ELSE {})
  ELSE (IF e.store \in {"dirro", "memdir"} THEN {"terminates", "kept", "untouched"} ELSE {})
Failed(e) == {c[1] : c \in {x \in Clauses(e) : ~x[2] /\ x[1] \in Enforced(e)}}
TraceInit == l = 1 /\ fails = <<>> /\ stats = [events |-> 0, checked |-> 0, nonempty |-> 0] /\ first = <<>>
TraceNext ==
  /\ l <= Len(Trace) /\ l' = l + 1
  /\ LET e == Trace[l]
         f == Failed(e)
     IN /\ fails' = IF f = {} \/ Len(fails) >= 300 THEN fails
                    ELSE Append(fails, [i |-> e.i, lid |-> e.lid, store |-> e.store, phase |-> e.phase, clauses |-> f, layout |-> e.layout,
                                         n |-> e.n, fsop |-> e.fsop, variant |-> e.variant])
        /\ first' = IF e.phase = "open" THEN e.obs ELSE first
        /\ stats' = [events |-> stats.events + 1, checked |-> stats.checked + (IF Enforced(e) # {} THEN 1 ELSE 0),
                     nonempty |-> stats.nonempty + (IF \E s \in Subjects : Expected(LayOf(e.layout), s) # {} THEN 1 ELSE 0)]
TraceSpec == TraceInit /\ [][TraceNext]_<<l, fails, stats, first>>
Consumed == TLCGet("stats").diameter = Len(Trace) + 1
Report == l = Len(Trace) + 1 => PrintT(<<"VERDICT", ToJson([fails |-> fails, stats |-> stats])>>)
=============================================================================
