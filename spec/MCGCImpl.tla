------------------------------ MODULE MCGCImpl ------------------------------
(***************************************************************************)
(* GCImpl checked against the policy of Registry on every shape of a small *)
(* universe (the catalogue of cat.json, one repository, one tag).          *)
(* A shape: which manifests the repository holds (each with its blob),     *)
(* which plain blobs, which manifest the tag names, what is young (nothing,*)
(* everything, or one digest), which untagged manifests are top level      *)
(* entries and which are only reached through an index that lists them,    *)
(* whether each referrers response is recent, and one of the 16 policies.  *)
(* Stage 0 picks the manifests (TLC spreads these states over its workers),*)
(* stage 1 everything else; the invariants are evaluated on stage 1.       *)
(***************************************************************************)
EXTENDS GCImpl, Json

VARIABLES iv, stage,
          wl, wk, wr      \* MCWalkSpec only: the work list of the walk, the manifests and the responses walked so far
mvars == <<vars, iv, stage, wl, wk, wr>>

CatFile == JsonDeserialize("cat.json")
R0n == CatFile.repos[1]
ManDigs  == {d \in DOMAIN CatFile.digs : CatFile.digs[d].a = "sha256" /\ CatFile.digs[d].c \in DOMAIN CatFile.mans /\ CatFile.mans[CatFile.digs[d].c].nomt = FALSE}
BlobDigs == {d \in DOMAIN CatFile.digs : CatFile.digs[d].a = "sha256" /\ CatFile.digs[d].c \in DOMAIN CatFile.blobs /\ CatFile.digs[d].c # "nx"}
T1 == CatFile.tags[1]

Quiet == /\ sess = <<>> /\ nsess = 0 /\ resp = R0
         /\ clk = [now |-> 0, timer |-> [r \in {R0n} |-> -1]]
         /\ base = [blob |-> [r \in {R0n} |-> {}], man |-> [r \in {R0n} |-> <<>>], tag |-> [r \in {R0n} |-> <<>>]]

MCInit ==
  /\ env = [cat |-> CatFile, cfg |-> CatFile.cfg, store |-> "mem", trace |-> "gcimpl"]
  /\ \E D \in SUBSET ManDigs : man = [r \in {R0n} |-> [d \in D |-> CatFile.mans[CatFile.digs[d].c].mt]]
  /\ blob = [r \in {R0n} |-> {}] /\ tag = [r \in {R0n} |-> <<>>] /\ young = [r \in {R0n} |-> {}]
  /\ iv = [top |-> {}, resp |-> {}] /\ stage = 0
  /\ wl = {} /\ wk = {} /\ wr = {}
  /\ Quiet

\* untagged manifests that an index of the repository lists may be tracked through that index alone
ChildOnlyOK(D, tg, d) == d \notin tg /\ \E y \in D : d \in KidsOf(y)
MCNext ==
  /\ stage = 0 /\ stage' = 1
  /\ UNCHANGED <<man, sess, nsess, clk, base, resp, wl, wk, wr>>
  /\ LET D == DOMAIN man[R0n] IN
     \E u, w, dg, g \in BOOLEAN :
     \E missing \in {{}} \cup {{b} : b \in BlobDigs} :
     \E tg \in {{}} \cup {{d} : d \in D} :
     \E co \in SUBSET {d \in D : ChildOnlyOK(D, tg, d)} :
       LET B == D \cup (BlobDigs \ missing)
           S == {SubjectOf(a) : a \in {x \in D : SubjectOf(x) # ""}}
       IN /\ env' = [env EXCEPT !.cfg = [@ EXCEPT !.untagged = u, !.withSubj = w, !.dangling = dg, !.grace = g]]
          /\ blob' = [r \in {R0n} |-> B]
          /\ tag' = [r \in {R0n} |-> [t \in (IF tg = {} THEN {} ELSE {T1}) |-> CHOOSE d \in tg : TRUE]]
          \* (an index is pushed after the manifests it hides, so a hidden manifest is not younger than every index that lists it;
          \*  the other way round needs the manifest's bytes uploaded again as a plain blob: generator guard G1b, not pinned)
          /\ \E Y \in (IF g THEN {{}, B} \cup {{d} : d \in B} ELSE {{}}) :
                /\ \A d \in co \cap Y : \E y \in D \cap Y : d \in KidsOf(y)
                /\ young' = [r \in {R0n} |-> Y]
          /\ \E RY \in (IF g THEN SUBSET S ELSE {{}}) :
                iv' = [top |-> {[d |-> d, t |-> d \in tg] : d \in D \ co}, resp |-> {[s |-> s, y |-> s \in RY] : s \in S}]
MCSpec == MCInit /\ [][MCNext]_mvars

-----------------------------------------------------------------------------
\* The walk as the code runs it: a work list from which entries are popped one at a time (here: ANY entry, a superset of
\* the orders the code's stack produces), the `walked` map, and the scan of the responses whenever the list runs empty.
\* WalkAgrees: whatever the order, the walk ends with exactly what GCImpl's fixed point says.  Explored for the shapes of
\* the policy that walks the most (untagged and dangling collection, no grace period).
WalkRescans == TRUE        \* (sanity run: WalkRescans <- NoRescan makes the stepwise walk stop at the first empty list)
MItem(d) == [k |-> "m", x |-> d]
RItem(s) == [k |-> "r", x |-> s]
WalkStart ==
  /\ stage = 1 /\ Cfg.untagged /\ Cfg.dangling /\ ~Cfg.grace
  /\ stage' = 2
  /\ wl' = {MItem(e.d) : e \in {x \in iv.top : KeepTop(R0n, x)}} \cup {RItem(x.s) : x \in {y \in iv.resp : KeepResp(R0n, y)}}
  /\ wk' = {} /\ wr' = {}
  /\ UNCHANGED <<vars, iv>>
WalkPop ==
  /\ stage = 2 /\ wl # {}
  /\ \E it \in wl :
       IF it.k = "m"
       THEN IF it.x \in wk \/ it.x \notin blob[R0n]
            THEN wl' = wl \ {it} /\ UNCHANGED <<wk, wr>>
            ELSE /\ wk' = wk \cup {it.x} /\ UNCHANGED wr
                 /\ wl' = (wl \ {it}) \cup {MItem(c) : c \in KidsOf(it.x)}
                              \cup {RItem(x.s) : x \in {y \in iv.resp : y.s = it.x /\ RespTracked(R0n, y)}}
       ELSE IF it.x \in wr
            THEN wl' = wl \ {it} /\ UNCHANGED <<wk, wr>>
            ELSE /\ wr' = wr \cup {it.x} /\ UNCHANGED wk
                 /\ wl' = (wl \ {it}) \cup {MItem(d) : d \in RList(R0n, it.x)}
  /\ UNCHANGED <<vars, iv, stage>>
WalkRescan ==
  /\ stage = 2 /\ wl = {}
  /\ LET R == {x.s : x \in {y \in iv.resp : y.s \notin wr /\ RList(R0n, y.s) \cap wk # {}}} IN
     IF R = {} \/ ~WalkRescans THEN stage' = 3 /\ UNCHANGED wl ELSE wl' = {RItem(s) : s \in R} /\ UNCHANGED stage
  /\ UNCHANGED <<vars, iv, wk, wr>>
MCWalkSpec == MCInit /\ [][MCNext \/ WalkStart \/ WalkPop \/ WalkRescan]_mvars
WalkAgrees == stage = 3 => LET F == Walk(R0n, iv) IN wk = F.w /\ wr = F.wr

NoRescan == FALSE      \* (cfg of the sanity run: Rescan <- NoRescan)
Safe   == stage = 1 => ImplSafe(R0n, iv)
\* (the grace period has elapsed for the responses too: a response is recent whenever a referrer of its subject was pushed
\*  or deleted recently, whatever the age of the referrers it still lists)
Exact  == (stage = 1 /\ (Cfg.grace => \A x \in iv.resp : ~x.y)) => ImplExact(R0n, iv)
Listed == stage = 1 => ImplListed(R0n, iv)
=============================================================================
