------------------------------- MODULE Locks -------------------------------
(***************************************************************************)
(* C12: can the synchronisation operations olareg performs block forever?  *)
(*                                                                         *)
(* progs.ndjson holds thread programs extracted from executions of the     *)
(* real code built with every mutex, wait group and collection token       *)
(* operation reported (tools/props.py: rewrite_vsync, lock_programs): one   *)
(* program per goroutine segment that blocks while holding something, as   *)
(* the sequence of its operations [op, id] on object identities.           *)
(* The semantics of the objects is defined here:                           *)
(*   Lock/Unlock  a mutex: Lock waits while any thread holds it;           *)
(*   Take/Put     the one slot channel `wgBlock` (the collection token):   *)
(*                Take waits until the token is there;                     *)
(*   Add/Done/Wait a wait group: Wait waits until the counter is zero.     *)
(* TLC runs every pair (Threads = 3: triple) of programs of one server     *)
(* lifetime that share an object in every interleaving, and reports every  *)
(* state in which an unfinished thread exists and none can move.           *)
(* A reported cycle is a prediction: the programs were recorded one after  *)
(* the other; the harness then tries to produce it (stress mode).          *)
(***************************************************************************)
EXTENDS Integers, Sequences, FiniteSets, TLC, Json

CONSTANT Threads        \* 2 or 3

Progs == ndJsonDeserialize("progs.ndjson")
N == Len(Progs)
IdsOf(p) == {Progs[p].ops[k].id : k \in DOMAIN Progs[p].ops}
Share(p, q) == Progs[p].epoch = Progs[q].epoch /\ IdsOf(p) \cap IdsOf(q) # {}

VARIABLES active,   \* the programs run by threads 1..Threads
          pc,       \* next operation of each thread
          locked,   \* set of <<mutex, thread>>
          taken,    \* tokens currently taken
          wgc       \* wait group counters (objects of the active programs)
vars == <<active, pc, locked, taken, wgc>>

Combos == IF Threads = 2 THEN {<<p, q>> : p \in 1..N, q \in 1..N}
          ELSE {<<p, q, r>> : p \in 1..N, q \in 1..N, r \in 1..N}
Init == /\ active \in {c \in Combos : /\ \A i \in 1..(Threads - 1) : c[i] <= c[i + 1]
                                      /\ \A i \in 1..Threads : \E j \in 1..Threads : i # j /\ Share(c[i], c[j])}
        /\ pc = [t \in 1..Threads |-> 1]
        /\ locked = {} /\ taken = {}
        /\ wgc = [x \in UNION {IdsOf(active[t]) : t \in 1..Threads} |-> 0]

Cur(t) == Progs[active[t]].ops[pc[t]]
Live(t) == pc[t] <= Len(Progs[active[t]].ops)
Enabled(t) ==
  /\ Live(t)
  /\ LET o == Cur(t) IN
     CASE o.op = "Lock" -> \A l \in locked : l[1] # o.id
       [] o.op = "Take" -> o.id \notin taken
       [] o.op = "Wait" -> wgc[o.id] = 0
       [] OTHER -> TRUE
Step(t) ==
  /\ Enabled(t)
  /\ LET o == Cur(t) IN
     /\ locked' = CASE o.op = "Lock" -> locked \cup {<<o.id, t>>}
                    [] o.op = "Unlock" -> {l \in locked : l[1] # o.id}
                    [] OTHER -> locked
     /\ taken' = CASE o.op = "Take" -> taken \cup {o.id}
                   [] o.op = "Put" -> taken \ {o.id}
                   [] OTHER -> taken
     /\ wgc' = CASE o.op = "Add" -> [wgc EXCEPT ![o.id] = @ + 1]
                 [] o.op = "Done" -> [wgc EXCEPT ![o.id] = IF @ > 0 THEN @ - 1 ELSE 0]
                 [] OTHER -> wgc
  /\ pc' = [pc EXCEPT ![t] = @ + 1]
  /\ UNCHANGED active
Next == \E t \in 1..Threads : Step(t)
Spec == Init /\ [][Next]_vars

Stuck == (\E t \in 1..Threads : Live(t)) /\ (\A t \in 1..Threads : ~Enabled(t))
\* what every blocked thread waits for and what it holds
Holds(t) == {l[1] : l \in {x \in locked : x[2] = t}}
Report == Stuck => PrintT(<<"DEADLOCK", ToJson([threads |-> [t \in 1..Threads |->
                         [prog |-> active[t], name |-> Progs[active[t]].name, at |-> pc[t], live |-> Live(t),
                          wants |-> IF Live(t) THEN Cur(t) ELSE [op |-> "", id |-> 0, class |-> ""],
                          holds |-> Holds(t)]]])>>)
=============================================================================
